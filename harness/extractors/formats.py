"""Per-format coordinate shifts of skgenome/tabio/*.py and skgenome/rangelabel.py -> Generated/FormatConsts.lean

For every reader / writer function the extractor sums the integer constants that the function adds
to (or subtracts from) the `start` coordinate:

  * `frame["start"] -= 1` / `frame["start"] += 1`              (ast.AugAssign on a subscript "start")
  * `frame.start - 1`, `frame["start"] + 1`, `row.start + 1`   (ast.BinOp, left operand names `start`)
  * `int(start) - 1`                                            (rangelabel.from_label)

Only `± <int literal>` is counted; `end - start`, `start + var_sz` are not constant shifts.
A reader of a 1-based format must total -1, a writer +1, BED/tab 0.  The text writer is the
composition `write_text` o `to_label`, so its shift is the sum of both functions' shifts.
Also extracted: the sort keys and sort kind of GenomicArray.sort, the float format of tabio.write,
the order of the sniff cascade and the sorter_chrom rank constants.
"""
import ast
import os
from ..translate import parse, find_func, lstr

NAME = "FormatConsts"


def _names_start(node):
    """does this expression denote the `start` column / field?"""
    if isinstance(node, ast.Name):
        return node.id == "start"
    if isinstance(node, ast.Attribute):
        return node.attr == "start"
    if isinstance(node, ast.Subscript):
        sl = node.slice
        if isinstance(sl, ast.Constant) and sl.value == "start":
            return True
        if isinstance(sl, ast.Tuple):  # table.loc[idx, "start"]
            return any(isinstance(e, ast.Constant) and e.value == "start" for e in sl.elts)
        return False
    if isinstance(node, ast.Call) and isinstance(node.func, ast.Name) and node.func.id == "int":
        return len(node.args) == 1 and _names_start(node.args[0])
    return False


_ADD_METHODS = {"add": 1, "radd": 1, "sub": -1, "subtract": -1}


def _int_const(node):
    if isinstance(node, ast.Constant) and isinstance(node.value, int) and not isinstance(node.value, bool):
        return node.value
    return None


def start_shift(fn):
    """sum of the constant offsets applied to `start` inside function `fn` (and the number of sites)"""
    total, sites = 0, 0
    for n in ast.walk(fn):
        if isinstance(n, ast.AugAssign) and _names_start(n.target) and isinstance(n.op, (ast.Add, ast.Sub)):
            c = _int_const(n.value)
            if c is not None:
                total += c if isinstance(n.op, ast.Add) else -c
                sites += 1
        elif isinstance(n, ast.BinOp) and isinstance(n.op, (ast.Add, ast.Sub)) and _names_start(n.left):
            c = _int_const(n.right)
            if c is not None:
                total += c if isinstance(n.op, ast.Add) else -c
                sites += 1
        elif (isinstance(n, ast.Call) and isinstance(n.func, ast.Attribute) and n.func.attr in _ADD_METHODS
              and _names_start(n.func.value) and len(n.args) == 1 and not n.keywords):
            # pandas / numpy spellings of the same shift: start.add(1), start.sub(1), start.subtract(1)
            c = _int_const(n.args[0])
            if c is not None:
                total += c * _ADD_METHODS[n.func.attr]
                sites += 1
        elif (isinstance(n, ast.Call) and ast.unparse(n.func) in ("np.add", "np.subtract") and len(n.args) == 2
              and _names_start(n.args[0])):
            c = _int_const(n.args[1])
            if c is not None:
                total += c if ast.unparse(n.func) == "np.add" else -c
                sites += 1
    return total, sites


def end_shift(fn):
    total = 0
    for n in ast.walk(fn):
        def is_end(x):
            return ((isinstance(x, ast.Name) and x.id == "end") or (isinstance(x, ast.Attribute) and x.attr == "end")
                    or (isinstance(x, ast.Subscript) and isinstance(x.slice, ast.Constant) and x.slice.value == "end")
                    or (isinstance(x, ast.Call) and isinstance(x.func, ast.Name) and x.func.id == "int"
                        and len(x.args) == 1 and is_end(x.args[0])))
        if isinstance(n, ast.AugAssign) and is_end(n.target) and isinstance(n.op, (ast.Add, ast.Sub)):
            c = _int_const(n.value)
            if c is not None:
                total += c if isinstance(n.op, ast.Add) else -c
        elif isinstance(n, ast.BinOp) and isinstance(n.op, (ast.Add, ast.Sub)) and is_end(n.left):
            c = _int_const(n.right)
            if c is not None:
                total += c if isinstance(n.op, ast.Add) else -c
    return total


def _i(v):
    return f"({v} : Int)" if v >= 0 else f"(({v}) : Int)"


def extract(repo, o):
    tab = os.path.join(repo, "skgenome", "tabio")
    sites = [
        # (lean name, file, function, comment)
        ("READ_SHIFT_bed", "bedio.py", "read_bed", "bedio.read_bed"),
        ("READ_SHIFT_tab", "tab.py", "read_tab", "tab.read_tab"),
        ("READ_SHIFT_interval", "picard.py", "read_interval", "picard.read_interval"),
        ("READ_SHIFT_picardhs", "picard.py", "read_picard_hs", "picard.read_picard_hs"),
        ("READ_SHIFT_gff", "gff.py", "read_gff", "gff.read_gff"),
        ("READ_SHIFT_seg", "seg.py", "parse_seg", "seg.parse_seg"),
        ("READ_SHIFT_vcf_sites", "vcfsimple.py", "read_vcf_sites", "vcfsimple.read_vcf_sites"),
        ("READ_SHIFT_vcf_simple", "vcfsimple.py", "read_vcf_simple", "vcfsimple.read_vcf_simple"),
        ("READ_SHIFT_text_reader", "textcoord.py", "read_text", "textcoord.read_text (own body, without from_label)"),
        ("WRITE_SHIFT_tab", "tab.py", "write_tab", "tab.write_tab"),
        ("WRITE_SHIFT_bed3", "bedio.py", "write_bed3", "bedio.write_bed3"),
        ("WRITE_SHIFT_bed4", "bedio.py", "write_bed4", "bedio.write_bed4"),
        ("WRITE_SHIFT_interval", "picard.py", "write_interval", "picard.write_interval"),
        ("WRITE_SHIFT_picardhs", "picard.py", "write_picard_hs", "picard.write_picard_hs"),
        ("WRITE_SHIFT_seg", "seg.py", "format_seg", "seg.format_seg"),
        ("WRITE_SHIFT_text_writer", "textcoord.py", "write_text", "textcoord.write_text (own body, without to_label)"),
    ]
    ends = {}
    for name, fn, func, what in sites:
        tree, _src = parse(os.path.join(tab, fn))
        f = find_func(tree, func)
        sh, n = start_shift(f)
        o.defn(name, "Int", _i(sh), f"constant added to `start` in {what}: {n} site(s)")
        ends[name] = end_shift(f)
    tree, _src = parse(os.path.join(repo, "skgenome", "rangelabel.py"))
    fl, tl = find_func(tree, "from_label"), find_func(tree, "to_label")
    sh, n = start_shift(fl)
    o.defn("READ_SHIFT_from_label", "Int", _i(sh), f"constant added to `start` in rangelabel.from_label: {n} site(s)")
    sh, n = start_shift(tl)
    o.defn("WRITE_SHIFT_to_label", "Int", _i(sh), f"constant added to `start` in rangelabel.to_label: {n} site(s)")
    o.defn("END_SHIFT_total", "Int",
           _i(sum(abs(v) for v in ends.values()) + abs(end_shift(fl)) + abs(end_shift(tl))),
           "sum of |constant offsets| applied to `end` in all of the functions above (every format keeps `end`)")
    # does write_text call to_label, does read_text call from_label?  (the text format is their composition)
    tree, _src = parse(os.path.join(tab, "textcoord.py"))

    def calls(fn, callee):
        return any(isinstance(n, ast.Name) and n.id == callee for n in ast.walk(fn))

    o.defn("TEXT_WRITER_USES_to_label", "Bool", "true" if calls(find_func(tree, "write_text"), "to_label") else "false")
    o.defn("TEXT_READER_USES_from_label", "Bool", "true" if calls(find_func(tree, "read_text"), "from_label") else "false")

    # read_tab: is the gene column read as text (converters={"gene": str}) or left to pandas' NA / dtype inference?
    tree, _src = parse(os.path.join(tab, "tab.py"))
    frt = find_func(tree, "read_tab")
    as_text = False
    for n in ast.walk(frt):
        if isinstance(n, ast.Call) and getattr(n.func, "attr", "") == "read_csv":
            for kw in n.keywords:
                if kw.arg == "converters" and isinstance(kw.value, ast.Dict):
                    for k, v in zip(kw.value.keys, kw.value.values):
                        if isinstance(k, ast.Constant) and k.value == "gene" and isinstance(v, ast.Name) and v.id == "str":
                            as_text = True
    o.defn("TAB_GENE_AS_TEXT", "Bool", "true" if as_text else "false",
           'tab.read_tab reads the "gene" column as text (converters={"gene": str})')

    # GenomicArray.sort: keys and kind
    tree, _src = parse(os.path.join(repo, "skgenome", "gary.py"))
    fs = find_func(tree, "sort", cls="GenomicArray")
    keys, kind = [], ""
    for n in ast.walk(fs):
        if isinstance(n, ast.Call) and isinstance(n.func, ast.Attribute) and n.func.attr == "sort_values":
            for kw in n.keywords:
                if kw.arg == "by":
                    keys = [e.value for e in kw.value.elts]
                if kw.arg == "kind":
                    kind = kw.value.value
    o.defn("SORT_KEYS", "List String", "[" + ", ".join(lstr(k) for k in keys) + "]", "GenomicArray.sort: sort_values(by=...)")
    o.defn("SORT_KIND", "String", lstr(kind), "GenomicArray.sort: sort_values(kind=...)")

    # sorter_chrom rank constants in source order: X/Y rank, one-letter base, longer-name base
    tree, _src = parse(os.path.join(repo, "skgenome", "chromsort.py"))
    fc = find_func(tree, "sorter_chrom")
    ranks = [c.value for c in sorted((c for c in ast.walk(fc) if isinstance(c, ast.Constant) and isinstance(c.value, int)
                                      and not isinstance(c.value, bool) and c.value >= 100),
                                     key=lambda c: (c.lineno, c.col_offset))]   # source order, whatever the nesting
    o.defn("SORTER_RANKS", "List Nat", "[" + ", ".join(str(r) for r in ranks) + "]",
           "integer constants >= 100 in chromsort.sorter_chrom, in source order (X/Y, 1-letter, longer)")

    # tabio.write / cmdutil.write_dataframe float format
    tree, _src = parse(os.path.join(tab, "__init__.py"))
    fw = find_func(tree, "write")
    ff = [kw.value.value for n in ast.walk(fw) if isinstance(n, ast.Call) for kw in n.keywords if kw.arg == "float_format"]
    o.defn("FLOAT_FORMAT", "String", lstr(ff[0] if ff else ""), "tabio.write: to_csv(float_format=...)")
    tree2, _ = parse(os.path.join(repo, "cnvlib", "cmdutil.py"))
    fw2 = find_func(tree2, "write_dataframe")
    ff2 = [kw.value.value for n in ast.walk(fw2) if isinstance(n, ast.Call) for kw in n.keywords if kw.arg == "float_format"]
    o.defn("FLOAT_FORMAT_dataframe", "String", lstr(ff2[0] if ff2 else ""), "cmdutil.write_dataframe: to_csv(float_format=...)")
    digits = "".join(ch for ch in (ff[0] if ff else "") if ch.isdigit())
    o.defn("SIG_DIGITS", "Nat", digits or "0", "significant digits of FLOAT_FORMAT")

    # sniff cascade: order in which format_patterns[...] are consulted inside sniff_region_format
    fsn = find_func(tree, "sniff_region_format")
    order = []
    for n in ast.walk(fsn):
        pass
    # ast.walk is breadth-first; use a source-position sort instead
    subs = [n for n in ast.walk(fsn) if isinstance(n, ast.Subscript) and isinstance(n.value, ast.Name)
            and n.value.id == "format_patterns" and isinstance(n.slice, ast.Constant)]
    subs.sort(key=lambda n: (n.lineno, n.col_offset))
    order = [n.slice.value for n in subs]
    o.defn("SNIFF_ORDER", "List String", "[" + ", ".join(lstr(k) for k in order) + "]",
           "format_patterns[...] lookups with a literal key in sniff_region_format, in source order")
    # the regular expressions themselves, as written (a changed pattern changes this definition)
    pats = []
    for node in tree.body:
        if isinstance(node, ast.Assign) and getattr(node.targets[0], "id", None) == "format_patterns":
            for tup in node.value.args[0].elts:
                key = tup.elts[0].value
                call = tup.elts[1]  # re.compile(...)
                arg = call.args[0]
                try:
                    pat = eval(compile(ast.Expression(arg), "<pat>", "eval"), {"__builtins__": {}}, {})
                except Exception:
                    pat = ast.unparse(arg)
                pats.append((key, pat))
    o.defn("SNIFF_PATTERNS", "List (String × String)",
           "[" + ",\n  ".join(f"({lstr(k)}, {lstr(p)})" for k, p in pats) + "]",
           "tabio.format_patterns as (name, regular expression)")
    tree, _src = parse(os.path.join(repo, "skgenome", "rangelabel.py"))
    for node in tree.body:
        if isinstance(node, ast.Assign) and getattr(node.targets[0], "id", None) == "re_label":
            o.defn("RE_LABEL", "String", lstr(ast.literal_eval(node.value.args[0])), "rangelabel.re_label")
