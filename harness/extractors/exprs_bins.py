"""Source expressions of C12 -> Generated/ExprsBins.lean.

* `antitarget.do_antitarget`: the minimum size it hands on to `get_antitargets` (harness/exprtrans.py:
  `argument_of`), once with `min_bin_size` supplied and once with it left `None`;
* `antitarget.drop_noncanonical_contigs`: the contigs it decides to skip; `antitarget.compare_chrom_names`: when it
  refuses; `target.filter_names` (harness/settrans.py: rules over sets of names).

Props/C12Src.lean proves that the hand-written model functions equal these generated ones."""
import ast
import os

from ..exprtrans import Fn, Untranslatable, argument_of, inline_imported_params
from ..settrans import COLL, emit as emit_sets
from ..translate import parse, find_func, module_consts

NAME = "ExprsBins"

SET_SPECS = [
    ("cnvlib/antitarget.py", "drop_noncanonical_contigs", "src_chroms_to_skip", "isin_arg",
     {"params": [("access_chroms", COLL), ("target_chroms", COLL)], "preds": ["is_canonical_contig_name"],
      "opaque": ["access_chroms", "target_chroms"]},
     "antitarget.drop_noncanonical_contigs: the names handed to `accessible.chromosome.isin(...)` (access_chroms, target_chroms = the "
     "chromosome names of the two tables; target_chroms is not empty here: compare_chrom_names has passed)"),
    ("cnvlib/antitarget.py", "compare_chrom_names", "src_chrom_names_clash", "raise_cond",
     {"params": [("a_chroms", COLL), ("b_chroms", COLL)], "opaque": ["a_chroms", "b_chroms"]},
     "antitarget.compare_chrom_names: the condition under which it raises ValueError"),
    ("cnvlib/target.py", "filter_names", "src_filter_names", "value",
     {"params": [("names", COLL), ("exclude", COLL)]},
     "target.filter_names(names, exclude)"),
]


def extract(repo, o):
    path = os.path.join(repo, "cnvlib/antitarget.py")
    for lean, kw, comment in (
            ("src_antitarget_min_given", {"given": ["min_bin_size"]},
             "antitarget.do_antitarget: the min_bin_size handed to get_antitargets when the caller supplies a number"),
            ("src_antitarget_min_absent", {"absent": ["min_bin_size"]},
             "antitarget.do_antitarget: the min_bin_size handed to get_antitargets when the caller leaves it None")):
        try:
            penv, _ = module_consts(os.path.join(repo, "cnvlib/params.py"))
            tree, _src = parse(path)
            tree = inline_imported_params(tree, penv)
            fn = argument_of(find_func(tree, "do_antitarget"), find_func(tree, "get_antitargets"), "min_bin_size")
            callees = {n.name: n for n in tree.body if isinstance(n, ast.FunctionDef) and n.name != "do_antitarget"}
            text, params = Fn(fn, callees=callees, **kw).translate(lean, comment)
        except (Untranslatable, KeyError, OSError, SyntaxError) as e:
            o.lines.append(f"-- NOT TRANSLATED: cnvlib/antitarget.py:do_antitarget: {type(e).__name__}: {str(e)[:200]}"
                           .replace("\n", " "))
            o.info[lean] = {"error": str(e)[:200]}
            continue
        o.lines.append(text)
        o.info[lean] = {"params": params}
    emit_sets(repo, o, SET_SPECS)
