"""cnvlib/cnary.py squash_genes: the OUTER loop -> Generated/ExprsSquashLoop.lean (C16, round 5b).

Reads the body of `squash_genes` outside the nested `squash_rows`: `acc = []`, ONE `for name, sub in self.by_gene(..)`
whose body only grows `acc`, `return self.as_rows(acc)`.  Reading rules (trusted):
  * a `for` loop whose body does nothing but `acc.append(..)` / `acc.extend(..)` / `continue` under `if`s is the
    concatenation, in iteration order, of what one pass contributes (`List.flatMap` of the step);
  * one pass: `if T: continue` is `if T then [] else <rest>`; `if T: A else: B` is `if T then A else B` (a statement
    after it is appended with `++`); `acc.extend(sub.data.itertuples(index=False))` contributes the group's own rows
    `subarr` unchanged; `acc.append(<nested helper>(name, sub.data))` contributes the single row `[squash_rows name subarr]`;
  * tests: `len(sub)` is `subarr.length` (truthy = `!= 0`), `not`, `and`, `or`, `==`/`!=` with an integer literal,
    `name in params.ANTITARGET_ALIASES` is `ANTITARGET_ALIASES.contains name` (the constant of Generated/Consts.lean),
    a parameter of `squash_genes` is the Bool of that name.
Props/C16SquashLoop.lean proves the model's `squashGroup` / `squashGenes` EQUAL to the generated step / loop."""
import ast
import os

from ..exprtrans import Untranslatable
from ..translate import find_func, parse

NAME = "ExprsSquashLoop"
IMPORTS = ["CnvVerif.Generated.Consts"]
PATH = "cnvlib/cnary.py"


class _R:
    def __init__(self, name, sub, acc, helpers, params):
        self.name, self.sub, self.acc, self.helpers, self.params = name, sub, acc, helpers, params

    def is_len(self, e):
        return isinstance(e, ast.Call) and isinstance(e.func, ast.Name) and e.func.id == "len" and len(e.args) == 1 \
            and isinstance(e.args[0], ast.Name) and e.args[0].id == self.sub and not e.keywords

    def nat(self, e):
        if self.is_len(e):
            return "subarr.length"
        if isinstance(e, ast.Constant) and type(e.value) is int and e.value >= 0:
            return str(e.value)
        raise Untranslatable("not a count: " + ast.unparse(e))

    def test(self, e):
        if self.is_len(e):
            return "(subarr.length != 0)"
        if isinstance(e, ast.UnaryOp) and isinstance(e.op, ast.Not):
            return "(!" + self.test(e.operand) + ")"
        if isinstance(e, ast.BoolOp):
            op = " && " if isinstance(e.op, ast.And) else " || "
            return "(" + op.join(self.test(v) for v in e.values) + ")"
        if isinstance(e, ast.Name) and e.id in self.params and e.id != self.params[0]:
            return e.id
        if isinstance(e, ast.Compare) and len(e.ops) == 1:
            op, l, r = e.ops[0], e.left, e.comparators[0]
            if isinstance(op, (ast.In, ast.NotIn)) and isinstance(l, ast.Name) and l.id == self.name \
                    and ast.unparse(r) in ("params.ANTITARGET_ALIASES", "ANTITARGET_ALIASES"):
                t = "(ANTITARGET_ALIASES.contains name)"
                return t if isinstance(op, ast.In) else "(!" + t + ")"
            sym = {ast.Eq: "==", ast.NotEq: "!=", ast.Lt: "<", ast.LtE: "<=", ast.Gt: ">", ast.GtE: ">="}.get(type(op))
            if sym:
                a, b = self.nat(l), self.nat(r)
                return f"({a} {sym} {b})" if sym in ("==", "!=") else f"(decide ({a} {sym.replace('<=', '≤').replace('>=', '≥')} {b}))"
        raise Untranslatable("test of the squash_genes loop: " + ast.unparse(e))

    def grown(self, s):
        """`acc.append(E)` / `acc.extend(E)` -> the rows it contributes"""
        c = s.value if isinstance(s, ast.Expr) else None
        if not (isinstance(c, ast.Call) and isinstance(c.func, ast.Attribute) and isinstance(c.func.value, ast.Name)
                and c.func.value.id == self.acc and len(c.args) == 1 and not c.keywords):
            raise Untranslatable("statement of the squash_genes loop: " + ast.unparse(s)[:80])
        a = c.args[0]
        if c.func.attr == "extend":
            if ast.unparse(a) != f"{self.sub}.data.itertuples(index=False)":
                raise Untranslatable("rows passed through: " + ast.unparse(a))
            return "subarr"
        if c.func.attr == "append":
            if not (isinstance(a, ast.Call) and isinstance(a.func, ast.Name) and a.func.id in self.helpers and not a.keywords
                    and [ast.unparse(x) for x in a.args] == [self.name, f"{self.sub}.data"]):
                raise Untranslatable("row appended: " + ast.unparse(a))
            return "[squash_rows name subarr]"
        raise Untranslatable("statement of the squash_genes loop: " + ast.unparse(s)[:80])

    def block(self, stmts):
        if not stmts:
            return "[]"
        s, rest = stmts[0], stmts[1:]
        if isinstance(s, ast.Continue):
            return "[]"  # whatever follows in this block is not reached
        if isinstance(s, ast.Pass):
            return self.block(rest)
        if isinstance(s, ast.If):
            t = self.test(s.test)
            ends = lambda b: any(isinstance(x, ast.Continue) for x in b)
            if ends(s.body) and not ends(s.orelse):
                return f"if {t} = true then {self.block(s.body)} else {self.block(list(s.orelse) + list(rest))}"
            if ends(s.orelse) and not ends(s.body):
                return f"if {t} = true then {self.block(list(s.body) + list(rest))} else {self.block(s.orelse)}"
            if ends(s.body) or ends(s.orelse):
                return f"if {t} = true then {self.block(s.body)} else {self.block(s.orelse)}"
            here = f"(if {t} = true then {self.block(s.body)} else {self.block(s.orelse)})"
            return here if not rest else f"{here} ++ ({self.block(rest)})"
        here = self.grown(s)
        return here if not rest else f"{here} ++ ({self.block(rest)})"


def read(repo):
    tree, _src = parse(os.path.join(repo, PATH))
    outer = find_func(tree, "squash_genes", cls="CopyNumArray")
    params = [a.arg for a in outer.args.args if a.arg != "self"]
    helpers = [n.name for n in outer.body if isinstance(n, ast.FunctionDef)]
    body = [s for s in outer.body if not isinstance(s, ast.FunctionDef)
            and not (isinstance(s, ast.Expr) and isinstance(s.value, ast.Constant))]
    if len(body) != 3:
        raise Untranslatable(f"squash_genes: {len(body)} statements outside squash_rows, expected `acc = []`, `for`, `return`")
    init, loop, ret = body
    if not (isinstance(init, ast.Assign) and len(init.targets) == 1 and isinstance(init.targets[0], ast.Name)
            and ast.unparse(init.value) in ("[]", "list()")):
        raise Untranslatable("accumulator: " + ast.unparse(init)[:80])
    acc = init.targets[0].id
    if not (isinstance(loop, ast.For) and not loop.orelse and isinstance(loop.target, ast.Tuple) and len(loop.target.elts) == 2
            and all(isinstance(x, ast.Name) for x in loop.target.elts)):
        raise Untranslatable("loop header: " + ast.unparse(loop)[:80])
    it = loop.iter
    if not (isinstance(it, ast.Call) and isinstance(it.func, ast.Attribute) and ast.unparse(it.func.value) == "self"
            and not it.keywords and all(isinstance(a, ast.Name) for a in it.args)):
        raise Untranslatable("iterable of the loop: " + ast.unparse(it))
    if not (isinstance(ret, ast.Return) and isinstance(ret.value, ast.Call) and isinstance(ret.value.func, ast.Attribute)
            and ast.unparse(ret.value.func.value) == "self" and [ast.unparse(a) for a in ret.value.args] == [acc]
            and not ret.value.keywords):
        raise Untranslatable("result: " + ast.unparse(ret)[:80])
    r = _R(loop.target.elts[0].id, loop.target.elts[1].id, acc, helpers, params)
    return params, (it.func.attr, [a.id for a in it.args]), ret.value.func.attr, r.block(list(loop.body))


def extract(repo, o):
    try:
        params, it, res, step = read(repo)
    except (Untranslatable, KeyError, IndexError, StopIteration, OSError, SyntaxError, AttributeError) as e:
        o.lines.append(f"-- NOT TRANSLATED: src_squashloop: {type(e).__name__}: {str(e)[:200]}".replace("\n", " "))
        o.info["src_squashloop"] = {"error": str(e)[:200]}
        return
    s = lambda x: '"' + x + '"'
    flags = "".join(f" ({p} : Bool)" for p in params[1:2])
    o.defn("src_squashloop_params", "List String", "[" + ", ".join(s(p) for p in params) + "]",
           "cnary.squash_genes: its parameters, in order")
    o.defn("src_squashloop_iter", "String × List String", f"({s(it[0])}, [" + ", ".join(s(a) for a in it[1]) + "])",
           "squash_genes: the loop runs over `self.<method>(<arguments>)`")
    o.defn("src_squashloop_result", "String", s(res), "squash_genes: `return self.<method>(<the accumulated rows>)`")
    o.lines.append("/-- squash_genes: the rows ONE pass of the loop contributes for the group `(name, subarr)` -/")
    o.lines.append(f"def src_squashloop_step {{R : Type}} (squash_rows : String → List R → R){flags} (name : String) "
                   f"(subarr : List R) : List R :=\n  {step}")
    o.lines.append("/-- squash_genes: the accumulated rows of the whole loop, in iteration order -/")
    o.lines.append(f"def src_squashloop {{R : Type}} (squash_rows : String → List R → R){flags} "
                   f"(groups : List (String × List R)) : List R :=\n"
                   f"  groups.flatMap (fun p => src_squashloop_step squash_rows {' '.join(params[1:2])} p.1 p.2)")
    o.info["src_squashloop_step"] = step
