"""The decisions of the `call` command's glue -> Generated/ExprsCmd.lean: the purity guard of commands._cmd_call and
cmdutil.verify_sample_sex (typed reader / guard reader of harness/exprtrans.py).  Props/C01SrcCmd.lean proves the model's
`cmdPurityRejected` and `cmdVerifySex` equal to them."""
import os
from ..exprtrans import emit_typed, guard_condition, Untranslatable

NAME = "ExprsCmd"

SPECS = [
    ("cnvlib/cmdutil.py", None, "verify_sample_sex", "src_verify_sample_sex",
     {"types": {"sex_arg": "String", "guess_xx": "Bool"}, "result": "Bool", "masks": ["guess_xx"]},
     "cmdutil.verify_sample_sex (the guess of the table's sex is the parameter guess_xx; an absent -x is the empty string)"),
]


def extract(repo, o):
    from ..translate import parse, find_func
    lean = "src_cmd_call_refuses_purity"
    try:
        tree, _src = parse(os.path.join(repo, "cnvlib/commands.py"))
        text, params = guard_condition(find_func(tree, "_cmd_call"), "RuntimeError")
        if params != ["purity"]:
            raise Untranslatable("the guard reads " + ", ".join(params))
        o.lines.append("/-- commands._cmd_call: the test in front of `raise RuntimeError(\"Purity must be between 0 and 1.\")` "
                       "(an absent --purity never reaches it) -/\n"
                       f"def {lean} (purity : Rat) : Prop :=\n  {text}")
        o.info[lean] = {"ok": True}
    except (Untranslatable, KeyError, OSError, SyntaxError) as e:
        o.lines.append(f"-- NOT TRANSLATED: cnvlib/commands.py:_cmd_call guard: {type(e).__name__}: {str(e)[:200]}".replace("\n", " "))
        o.info[lean] = {"error": str(e)[:200]}
    emit_typed(repo, o, SPECS)
