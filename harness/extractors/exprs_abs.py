"""Source expressions -> Generated/ExprsAbs.lean (see harness/exprtrans.py for the reading of the Python subset).
Props prove that the hand-written model functions equal these generated ones, so an edit to a formula in /repo
changes the generated term and breaks that proof obligation."""
from ..exprtrans import emit

NAME = "ExprsAbs"
SPECS = [
    ("cnvlib/call.py", "_log2_ratio_to_absolute", "src_log2_ratio_to_absolute", {},
     "call._log2_ratio_to_absolute (purity given as a number; 2**log2_ratio is the parameter log2_ratio_pow2)"),
    ("cnvlib/call.py", "_log2_ratio_to_absolute_pure", "src_log2_ratio_to_absolute_pure", {},
     "call._log2_ratio_to_absolute_pure"),
]


def extract(repo, o):
    emit(repo, o, SPECS)
