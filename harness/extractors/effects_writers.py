"""the output-writing call sites of the command layer -> Generated/EffectsWriters.lean  (C10, round 5)

For every function of `cnvlib/commands.py` and `cnvlib/batch.py` that opens an output for writing, the ordered list of
its FILE ACTIONS is re-read from the source on every run:

    .ensure e          `core.ensure_path(e)`  (any spelling whose last name is `ensure_path`)
    .write helper e    an output written to the path expression `e` through `helper`

`e` is the source text of the path expression (`ast.unparse`), with a default stripped (`e or <default>` reads as `e`
when `<default>` is `sys.stdout` / a stream; otherwise the whole expression is kept).  Model/WritersExt5.lean checks the
lists (a write is GUARDED when the action just before it is `.ensure` of the same expression) and Props/C10Writers.lean
proves what a guarded list does to any directory tree.

Reading rules (trusted):
 * write helpers and the position of their path argument: `tabio.write(x, PATH, …)` / `outfile=`; `write_tsv`,
   `write_text`, `write_dataframe(PATH, …)` (cmdutil, all through `tabio.safe_write`); `open(PATH, "w"|"a"|"x"…)`;
   `<frame>.to_csv(PATH, …)` when PATH is not a handle opened in the same function; `pyplot.savefig(PATH)`,
   `<fig>.savefig(PATH)`, `PdfPages(PATH)`; `<x>.save(PATH)`, `<x>.write(PATH)` on a drawing; a helper named in
   PATH_HELPERS of this file.  A call without a path argument (writes to `sys.stdout`) is no file action.
 * a local bound exactly once by a plain assignment of a name / attribute / `or` / string expression stands for that
   expression (`ref_fname = args.output or "cnv_reference.cnn"`): guard and write may name the path through it or not.
 * statements are read in source order, branches flattened (an `if` contributes the actions of its test-free body
   and `else` in textual order; a loop body once).  For the two-statement guard idiom `ensure_path(p); write(…, p)`
   this is exact; a guard in one branch and the write in another would be read as guarded (none exists; the driver
   op `writer_cmd` runs the real commands against the classification).
 * `tabio.safe_write` itself: whether its body calls `ensure_path` (SAFE_WRITE_GUARDS) and whether it opens with
   mode "w" (SAFE_WRITE_TRUNCATES) -- the semantics the model gives an unguarded `.write`.
 * a submitted callable (`pool.submit(f, …)`) is not followed; `batch_write_coverage` has its own row.
"""
import ast
import os

NAME = "EffectsWriters"
IMPORTS = ["CnvVerif.Model.WritersExt5"]

FILES = [("cnvlib.commands", ("cnvlib", "commands.py")), ("cnvlib.batch", ("cnvlib", "batch.py")),
         ("cnvlib.cmdutil", ("cnvlib", "cmdutil.py"))]
FIRST_ARG = {"write_tsv", "write_text", "write_dataframe", "safe_write", "PdfPages", "savefig", "to_csv", "save"}
STREAMS = {"sys.stdout", "sys.stderr"}


def _dotted(f):
    parts = []
    while isinstance(f, ast.Attribute):
        parts.append(f.attr)
        f = f.value
    if isinstance(f, ast.Name):
        parts.append(f.id)
    else:
        parts.append("<expr>")
    return ".".join(reversed(parts))


def _lean_str(s):
    return '"' + s.replace("\\", "\\\\").replace('"', '\\"').replace("\n", " ") + '"'


def path_text(e, binds=None, depth=0):
    """source text of a path expression, a stream default stripped, single-assignment locals replaced by their value"""
    if isinstance(e, ast.BoolOp) and isinstance(e.op, ast.Or) and len(e.values) == 2 and ast.unparse(e.values[1]) in STREAMS:
        e = e.values[0]
    if binds and depth < 4:
        class Sub(ast.NodeTransformer):
            def visit_Name(self, n):
                if isinstance(n.ctx, ast.Load) and n.id in binds:
                    return ast.parse(path_text(binds[n.id], binds, depth + 1), mode="eval").body
                return n
        import copy
        e = Sub().visit(copy.deepcopy(e))
    return ast.unparse(e)


def single_assignments(fn):
    """locals of `fn` bound exactly once, by a plain `x = <expression without a call that opens or writes>`, that are
    neither parameters nor loop / with / comprehension targets: a path expression may name its value through them"""
    params = {a.arg for a in fn.args.args + fn.args.kwonlyargs + fn.args.posonlyargs}
    if fn.args.vararg:
        params.add(fn.args.vararg.arg)
    if fn.args.kwarg:
        params.add(fn.args.kwarg.arg)
    count, val = {}, {}
    for n in ast.walk(fn):
        if isinstance(n, ast.Name) and isinstance(n.ctx, (ast.Store, ast.Del)):
            count[n.id] = count.get(n.id, 0) + 1
        if isinstance(n, ast.Assign) and len(n.targets) == 1 and isinstance(n.targets[0], ast.Name):
            val[n.targets[0].id] = n.value
    return {x: v for x, v in val.items() if count.get(x) == 1 and x not in params
            and isinstance(v, (ast.Name, ast.Attribute, ast.BoolOp, ast.Constant, ast.BinOp, ast.JoinedStr))}


class Sites(ast.NodeVisitor):
    """file actions of one function body, in source order"""

    def __init__(self, binds=None):
        self.acts = []
        self.handles = set()
        self.binds = binds or {}

    def visit_FunctionDef(self, node):  # nested definitions belong to the row of the enclosing function
        for s in node.body:
            self.visit(s)

    def visit_With(self, node):
        for it in node.items:
            self.visit(it.context_expr)
            if it.optional_vars is not None and isinstance(it.optional_vars, ast.Name):
                self.handles.add(it.optional_vars.id)
        for s in node.body:
            self.visit(s)

    def visit_Call(self, c):
        # arguments first (evaluation order), then the call itself
        for a in list(c.args) + [k.value for k in c.keywords]:
            self.visit(a)
        if isinstance(c.func, ast.Attribute):
            self.visit(c.func.value)
        name = _dotted(c.func)
        last = name.split(".")[-1]
        kw = {k.arg: k.value for k in c.keywords if k.arg}
        if last == "ensure_path" and c.args:
            self.acts.append(".ensure %s" % _lean_str(path_text(c.args[0], self.binds)))
            return
        target = None
        if name in ("tabio.write", "skgenome.tabio.write"):
            target = c.args[1] if len(c.args) > 1 else kw.get("outfile")
            helper = "tabio.write"
        elif last == "open" and name in ("open", "io.open", "gzip.open"):
            mode = c.args[1] if len(c.args) > 1 else kw.get("mode")
            if isinstance(mode, ast.Constant) and isinstance(mode.value, str) and any(ch in mode.value for ch in "wax+"):
                target = c.args[0] if c.args else kw.get("file")
            helper = "open"
        elif last in FIRST_ARG and (name == last or "." in name):
            target = c.args[0] if c.args else (kw.get("outfname") or kw.get("outfile") or kw.get("fname") or kw.get("path_or_buf"))
            helper = last
        if target is None:
            return
        if isinstance(target, ast.Name) and target.id in self.handles:
            return  # an open handle, accounted for where it was opened
        txt = path_text(target, self.binds)
        if txt in STREAMS or txt == "None":
            return
        self.acts.append(".write %s %s" % (_lean_str(helper), _lean_str(txt)))


def _safe_write_flags(repo):
    from ..translate import parse
    tree = parse(os.path.join(repo, "skgenome", "tabio", "__init__.py"))[0]
    fn = next((n for n in tree.body if isinstance(n, ast.FunctionDef) and n.name == "safe_write"), None)
    guards = trunc = False
    if fn is not None:
        for c in ast.walk(fn):
            if isinstance(c, ast.Call):
                nm = _dotted(c.func)
                if nm.split(".")[-1] == "ensure_path":
                    guards = True
                if nm == "open" and len(c.args) > 1 and isinstance(c.args[1], ast.Constant) and c.args[1].value == "w":
                    trunc = True
    return guards, trunc


def rows(repo):
    from ..translate import parse
    out = []
    for mod, rel in FILES:
        tree = parse(os.path.join(repo, *rel))[0]
        for n in tree.body:
            if isinstance(n, ast.FunctionDef):
                v = Sites(single_assignments(n))
                for s in n.body:
                    v.visit(s)
                if v.acts:
                    out.append((mod + "." + n.name, v.acts))
    return out


def extract(repo, o):
    o.lines.append("open CnvVerif.C10W")
    rs = rows(repo)
    body = ",\n  ".join("⟨%s, [%s]⟩" % (_lean_str(fn), ", ".join(acts)) for fn, acts in rs)
    o.defn("WRITER_TABLE", "List WRow", "[\n  %s]" % body,
           "file actions of every output-writing function of cnvlib/commands.py, batch.py, cmdutil.py, in source order")
    g, t = _safe_write_flags(repo)
    o.defn("SAFE_WRITE_GUARDS", "Bool", "true" if g else "false", "does skgenome.tabio.safe_write call ensure_path itself")
    o.defn("SAFE_WRITE_TRUNCATES", "Bool", "true" if t else "false", "does skgenome.tabio.safe_write open its path with mode \"w\"")
