"""cnvlib/coverage.py: `detect_bedcov_columns` and the `pd.read_csv` call of `bedcov` -> Generated/ExprsCovCols.lean
(reading rules: harness/coltrans.py).

  src_bedcov_columns (tabcount : Int)   the whole decision of `detect_bedcov_columns` as a function of the number of TABs
        in the first line; the integer it decides on must read (locals read through)
        `text[:text.index('\\n')].count('\\t')` -- the text up to the first newline (ValueError without one), its TABs
  BEDCOV_TABCOUNT_TEXT                  that text, as found (the model's `firstLine` / `count` is its meaning)
  BEDCOV_SEP / BEDCOV_KEEP_DEFAULT_NA / BEDCOV_NA_VALUES / BEDCOV_STR_COLUMNS
        the keyword arguments `sep`, `keep_default_na` (pandas' default True when absent), `na_values` (default []),
        and the keys of `dtype` whose value is `str`, of the one `read_csv` call in `bedcov`
  BEDCOV_NAMES_ARE_DETECTED             `names=` and `usecols=` are both the variable bound to
        `detect_bedcov_columns(<raw>)` and the text read is `StringIO(<raw>)` for the same <raw>, the value of
        `pysam.bedcov(..)`
  BEDCOV_EMPTY_REFUSED                  an `if not <raw>: raise ValueError(..)` stands before the detection
  BEDCOV_OTHER_KWARGS                   any further keyword of the `read_csv` call (header=, comment=, skiprows=, ..
        would change which lines become rows): expected empty
Props/C09Cols.lean proves the model's `columnsOf` equal to `src_bedcov_columns` and its reader settings equal to these.
"""
import ast
import os

from ..coltrans import Cols
from ..exprtrans import Untranslatable
from ..translate import parse, find_func, lstr

NAME = "ExprsCovCols"

KEY_TEXT = "text[:text.index('\\n')].count('\\t')"
_KNOWN = ("sep", "names", "usecols", "dtype", "keep_default_na", "na_values")


def _columns(tree):
    fn = find_func(tree, "detect_bedcov_columns")
    if len(fn.args.args) != 1:
        raise Untranslatable("detect_bedcov_columns takes one argument")
    arg = fn.args.args[0].arg
    if arg != "text":  # a renamed parameter reads the same
        class R(ast.NodeTransformer):
            def visit_Name(self, node):
                return ast.copy_location(ast.Name(id="text", ctx=node.ctx), node) if node.id == arg else node
        import copy
        fn = R().visit(copy.deepcopy(fn))
    return Cols(fn, KEY_TEXT, "tabcount")


def _read_csv(tree):
    fn = find_func(tree, "bedcov")
    calls = [n for n in ast.walk(fn) if isinstance(n, ast.Call) and ast.unparse(n.func).split(".")[-1] == "read_csv"]
    if len(calls) != 1:
        raise Untranslatable("bedcov: exactly one read_csv call expected, found %d" % len(calls))
    call = calls[0]
    kw = {k.arg: k.value for k in call.keywords}
    if None in kw:
        raise Untranslatable("bedcov: read_csv(**kwargs)")
    binds = {}
    for n in ast.walk(fn):
        if isinstance(n, ast.Assign) and len(n.targets) == 1 and isinstance(n.targets[0], ast.Name):
            binds.setdefault(n.targets[0].id, []).append(n.value)
    out = {}
    sep = kw.get("sep", kw.get("delimiter"))
    if not (isinstance(sep, ast.Constant) and isinstance(sep.value, str)):
        raise Untranslatable("bedcov: read_csv sep is not a string literal")
    out["sep"] = sep.value
    kd = kw.get("keep_default_na")
    if kd is None:
        out["keep"] = True
    elif isinstance(kd, ast.Constant) and isinstance(kd.value, bool):
        out["keep"] = kd.value
    else:
        raise Untranslatable("bedcov: keep_default_na is not a literal")
    na = kw.get("na_values")
    if na is None:
        out["na"] = []
    elif isinstance(na, (ast.List, ast.Tuple, ast.Set)) and all(isinstance(x, ast.Constant) and isinstance(x.value, str) for x in na.elts):
        out["na"] = [x.value for x in na.elts]
    elif isinstance(na, ast.Constant) and isinstance(na.value, str):
        out["na"] = [na.value]
    else:
        raise Untranslatable("bedcov: na_values is not a list of string literals")
    dt = kw.get("dtype")
    out["strcols"] = []
    if isinstance(dt, ast.Dict):
        for k, v in zip(dt.keys, dt.values):
            if isinstance(k, ast.Constant) and ast.unparse(v) in ("str", "'str'", "object"):
                out["strcols"].append(k.value)
    elif dt is not None:
        raise Untranslatable("bedcov: dtype is not a dict display")
    # names / usecols = the detected columns of the text that is read
    detected = False
    names, use = kw.get("names"), kw.get("usecols")
    src = call.args[0] if call.args else kw.get("filepath_or_buffer")
    if isinstance(names, ast.Name) and isinstance(use, ast.Name) and names.id == use.id and len(binds.get(names.id, [])) == 1:
        b = binds[names.id][0]
        if isinstance(b, ast.Call) and ast.unparse(b.func) == "detect_bedcov_columns" and len(b.args) == 1 \
                and isinstance(b.args[0], ast.Name):
            raw = b.args[0].id
            rb = binds.get(raw, [])
            if isinstance(src, ast.Call) and ast.unparse(src.func).split(".")[-1] == "StringIO" and len(src.args) == 1 \
                    and ast.unparse(src.args[0]) == raw and len(rb) == 1 and isinstance(rb[0], ast.Call) \
                    and ast.unparse(rb[0].func) == "pysam.bedcov":
                detected = True
                out["raw"] = raw
    out["detected"] = detected
    # the refusal of an empty text, before the detection
    refused = False
    if detected:
        for st in fn.body:
            if isinstance(st, ast.Assign) and ast.unparse(st.value).startswith("detect_bedcov_columns("):
                break
            if isinstance(st, ast.If) and ast.unparse(st.test) == "not " + out["raw"] and st.body \
                    and isinstance(st.body[0], ast.Raise) and not st.orelse:
                exc = st.body[0].exc
                exc = exc.func if isinstance(exc, ast.Call) else exc
                refused = isinstance(exc, ast.Name) and exc.id == "ValueError"
    out["refused"] = refused
    out["other"] = sorted(k for k in kw if k not in _KNOWN and k != "delimiter")
    return out


def extract(repo, o):
    try:
        tree, _src = parse(os.path.join(repo, "cnvlib/coverage.py"))
    except (OSError, SyntaxError) as e:
        o.lines.append(f"-- NOT TRANSLATED: cnvlib/coverage.py: {type(e).__name__}: {str(e)[:200]}")
        return
    try:
        text = _columns(tree).lean(
            "src_bedcov_columns",
            "detect_bedcov_columns: the names (or the exception class) as a function of the number of TABs in the first line")
        o.lines.append(text)
        o.info["src_bedcov_columns"] = {"params": ["tabcount"]}
        o.defn("BEDCOV_TABCOUNT_TEXT", "String", lstr(KEY_TEXT),
               "the integer detect_bedcov_columns decides on, locals read through")
    except (Untranslatable, KeyError, ValueError, IndexError, AttributeError) as e:
        o.lines.append(f"-- NOT TRANSLATED: cnvlib/coverage.py:detect_bedcov_columns: {type(e).__name__}: {str(e)[:200]}".replace("\n", " "))
        o.info["src_bedcov_columns"] = {"error": str(e)[:200]}
    try:
        r = _read_csv(tree)
    except (Untranslatable, KeyError, ValueError, IndexError, AttributeError) as e:
        o.lines.append(f"-- NOT TRANSLATED: cnvlib/coverage.py:bedcov read_csv: {type(e).__name__}: {str(e)[:200]}".replace("\n", " "))
        o.info["BEDCOV_SEP"] = {"error": str(e)[:200]}
        return

    def strs(xs):
        return "[" + ", ".join(lstr(x) for x in xs) + "]"

    def b(x):
        return "true" if x else "false"
    o.defn("BEDCOV_SEP", "String", lstr(r["sep"]), "bedcov: read_csv(sep=..)")
    o.defn("BEDCOV_KEEP_DEFAULT_NA", "Bool", b(r["keep"]), "bedcov: read_csv(keep_default_na=..), pandas' default True when absent")
    o.defn("BEDCOV_NA_VALUES", "List String", strs(r["na"]), "bedcov: read_csv(na_values=..)")
    o.defn("BEDCOV_STR_COLUMNS", "List String", strs(r["strcols"]), "bedcov: the columns read_csv is told to keep as text")
    o.defn("BEDCOV_NAMES_ARE_DETECTED", "Bool", b(r["detected"]),
           "names= and usecols= are detect_bedcov_columns(raw) for the raw = pysam.bedcov(..) that is read through StringIO")
    o.defn("BEDCOV_EMPTY_REFUSED", "Bool", b(r["refused"]), "`if not raw: raise ValueError` stands before the detection")
    o.defn("BEDCOV_OTHER_KWARGS", "List String", strs(r["other"]), "further keywords of the read_csv call")
