"""`cnvlib.core.ensure_path` as a program -> Generated/EffectsPath.lean  (C10)

The body of `ensure_path` is re-read statement by statement into a term of `CnvVerif.Effects.PCmd`
(Model/PathProg.lean); Props/C10Src.lean proves that running that term equals the hand-written model.

Reading rules (trusted): `os.path.isfile / isdir / normpath / abspath / dirname`, `os.rename`, `os.makedirs` are the
operations of the file-system model; the backup name may be spelled `f"{fname}.{cnt}"`, `"%s.%d" % (fname, cnt)`,
`"{}.{}".format(fname, cnt)` or `fname + "." + str(cnt)`; `dname and not isdir(dname)`: `dname` of an absolute path is
never empty; a `try` whose handlers only re-raise is its body (the error branch is outside the model); logging calls,
the docstring and the final `return` are no-ops.  Local names are free: the counter is the local bound to an
integer literal, the backup name the local bound to the suffix expression, the directory the local bound to
`dirname(abspath(fname))`.
"""
import ast
import os

NAME = "EffectsPath"
IMPORTS = ["CnvVerif.Model.PathProg"]


class Unreadable(Exception):
    pass


def _callname(c):
    """dotted name of a call's function: os.path.isfile -> 'isfile' with its module path"""
    f = c.func
    parts = []
    while isinstance(f, ast.Attribute):
        parts.append(f.attr)
        f = f.value
    if isinstance(f, ast.Name):
        parts.append(f.id)
    return ".".join(reversed(parts))


class Reader:
    def __init__(self, fn):
        self.fn = fn
        self.param = fn.args.args[0].arg
        self.cnt = self.bak = self.dname = None

    def is_call(self, e, last, nargs=None):
        return isinstance(e, ast.Call) and _callname(e).split(".")[-1] == last and (nargs is None or len(e.args) == nargs)

    def sexpr(self, e):
        if isinstance(e, ast.Name) and e.id == self.param:
            return ".fname"
        if isinstance(e, ast.Name) and self.bak is not None and e.id == self.bak:
            return ".bak"
        raise Unreadable("path expression " + ast.unparse(e))

    def is_fname(self, e):
        return isinstance(e, ast.Name) and e.id == self.param

    def is_cnt(self, e):
        if isinstance(e, ast.Call) and isinstance(e.func, ast.Name) and e.func.id == "str" and len(e.args) == 1:
            e = e.args[0]
        return isinstance(e, ast.Name) and (self.cnt is None or e.id == self.cnt)

    def is_suffix_expr(self, e):
        """f"{fname}.{cnt}" and its equivalent spellings"""
        if isinstance(e, ast.JoinedStr):
            v = e.values
            return (len(v) == 3 and isinstance(v[0], ast.FormattedValue) and self.is_fname(v[0].value)
                    and isinstance(v[1], ast.Constant) and v[1].value == "."
                    and isinstance(v[2], ast.FormattedValue) and self.is_cnt(v[2].value)
                    and v[0].format_spec is None and v[2].format_spec is None)
        if isinstance(e, ast.BinOp) and isinstance(e.op, ast.Mod) and isinstance(e.left, ast.Constant) \
                and e.left.value in ("%s.%d", "%s.%s", "%s.%i") and isinstance(e.right, ast.Tuple) and len(e.right.elts) == 2:
            return self.is_fname(e.right.elts[0]) and self.is_cnt(e.right.elts[1])
        if isinstance(e, ast.Call) and isinstance(e.func, ast.Attribute) and e.func.attr == "format" \
                and isinstance(e.func.value, ast.Constant) and e.func.value.value in ("{}.{}", "{0}.{1}") and len(e.args) == 2:
            return self.is_fname(e.args[0]) and self.is_cnt(e.args[1])
        if isinstance(e, ast.BinOp) and isinstance(e.op, ast.Add) and isinstance(e.left, ast.BinOp) and isinstance(e.left.op, ast.Add):
            a, dot, c = e.left.left, e.left.right, e.right
            return self.is_fname(a) and isinstance(dot, ast.Constant) and dot.value == "." and \
                isinstance(c, ast.Call) and isinstance(c.func, ast.Name) and c.func.id == "str" and self.is_cnt(c)
        return False

    def block(self, stmts):
        out = [self.stmt(s) for s in stmts]
        out = [x for x in out if x != ".skip"]
        if not out:
            return ".skip"
        t = out[-1]
        for x in reversed(out[:-1]):
            t = ".seq (%s) (%s)" % (x, t)
        return t

    def test(self, t, body):
        if isinstance(t, ast.Compare) and len(t.ops) == 1 and isinstance(t.ops[0], ast.In) and isinstance(t.left, ast.Constant) \
                and t.left.value in ("/", os.sep) and self.is_call(t.comparators[0], "normpath", 1) and self.is_fname(t.comparators[0].args[0]):
            return ".ifSlash (%s)" % body
        if self.is_call(t, "isfile", 1):
            return ".ifFile %s (%s)" % (self.sexpr(t.args[0]), body)
        # dname and not isdir(dname) / not isdir(dname) / isdir(dname)
        conj = t.values if isinstance(t, ast.BoolOp) and isinstance(t.op, ast.And) else [t]
        conj = [c for c in conj if not (isinstance(c, ast.Name) and c.id == self.dname)]
        if len(conj) == 1:
            c = conj[0]
            neg = False
            if isinstance(c, ast.UnaryOp) and isinstance(c.op, ast.Not):
                neg, c = True, c.operand
            if self.is_call(c, "isdir", 1) and isinstance(c.args[0], ast.Name) and c.args[0].id == self.dname:
                return ".ifDir %s (%s)" % ("true" if neg else "false", body)
        raise Unreadable("condition " + ast.unparse(t))

    def stmt(self, s):
        if isinstance(s, ast.Expr) and isinstance(s.value, ast.Constant):
            return ".skip"
        if isinstance(s, ast.Return):
            return ".skip"
        if isinstance(s, ast.If) and not s.orelse:
            # the body may bind the names the test of a nested statement refers to: read the test first
            if isinstance(s.test, ast.Compare):
                return self.test(s.test, self.block(s.body))
            return self.test(s.test, self.block(s.body))
        if isinstance(s, ast.While) and not s.orelse and self.is_call(s.test, "isfile", 1):
            e = self.sexpr(s.test.args[0])
            return ".whileFile %s (%s)" % (e, self.block(s.body))
        if isinstance(s, ast.Try) and not s.orelse and not s.finalbody and \
                all(len(h.body) == 1 and isinstance(h.body[0], ast.Raise) for h in s.handlers):
            return self.block(s.body)
        if isinstance(s, ast.Assign) and len(s.targets) == 1 and isinstance(s.targets[0], ast.Name):
            x, v = s.targets[0].id, s.value
            if isinstance(v, ast.Constant) and isinstance(v.value, int) and not isinstance(v.value, bool) and v.value >= 0:
                if self.cnt not in (None, x):
                    raise Unreadable("two counters")
                self.cnt = x
                return ".setCnt %d" % v.value
            if self.is_call(v, "dirname", 1) and self.is_call(v.args[0], "abspath", 1) and self.is_fname(v.args[0].args[0]):
                self.dname = x
                return ".setDname"
            if self.is_suffix_expr(v):
                if self.bak not in (None, x):
                    raise Unreadable("two backup names")
                self.bak = x
                return ".setBak"
            if isinstance(v, ast.BinOp) and isinstance(v.op, ast.Add) and isinstance(v.left, ast.Name) and v.left.id == x == self.cnt \
                    and isinstance(v.right, ast.Constant) and isinstance(v.right.value, int):
                return ".incCnt %d" % v.right.value
            raise Unreadable("assignment " + ast.unparse(s))
        if isinstance(s, ast.AugAssign) and isinstance(s.op, ast.Add) and isinstance(s.target, ast.Name) and s.target.id == self.cnt \
                and isinstance(s.value, ast.Constant) and isinstance(s.value.value, int) and s.value.value >= 0:
            return ".incCnt %d" % s.value.value
        if isinstance(s, ast.Expr) and isinstance(s.value, ast.Call):
            c = s.value
            nm = _callname(c)
            if nm.split(".")[0] in ("logging", "logger", "log") or nm == "print":
                return ".skip"
            if nm.split(".")[-1] == "rename" and len(c.args) == 2:
                return ".rename %s %s" % (self.sexpr(c.args[0]), self.sexpr(c.args[1]))
            if nm.split(".")[-1] == "makedirs" and c.args and isinstance(c.args[0], ast.Name) and c.args[0].id == self.dname:
                return ".makedirs"
        raise Unreadable("statement " + ast.unparse(s)[:80])


def extract(repo, o):
    from ..translate import parse
    tree = parse(os.path.join(repo, "cnvlib", "core.py"))[0]
    fn = next(n for n in tree.body if isinstance(n, ast.FunctionDef) and n.name == "ensure_path")
    o.lines.append("open CnvVerif.Effects")
    try:
        term, readable, why = Reader(fn).block(fn.body), True, ""
    except Unreadable as e:
        # the file still builds (the driver imports it); `ensure_path_is_the_source` no longer checks
        term, readable, why = ".skip", False, " -- LEFT THE SUBSET THE READER KNOWS: %s" % str(e).replace("-/", "- /")
    o.defn("ENSURE_PATH_PROG", "PCmd", term, "the body of cnvlib.core.ensure_path" + why)
    o.defn("ENSURE_PATH_READABLE", "Bool", "true" if readable else "false")
