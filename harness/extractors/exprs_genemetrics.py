"""cnvlib/reports.py genemetrics / breaks selection logic -> Generated/ExprsGeneMetrics.lean (typed reading, see
harness/exprtrans.py).

Props/C16SrcReports.lean proves that the model's selection rules (`metricsByGene`, `metricsBySegment`,
`minProbesFilter`, `breaksAt`, `skipNames`, the ignore list of `geneIntervals`) ARE these generated definitions."""
import ast
import os

from ..exprtrans import GFn, Untranslatable, emit_gtyped
from ..translate import find_func, parse
from .exprs_bygene import _HasColumns, _body, ignore_list, sig

NAME = "ExprsGeneMetrics"
IMPORTS = ["CnvVerif.Generated.Consts"]
PATH = "cnvlib/reports.py"
BRK = "List (String × String × Int × Rat × Nat × Nat)"


def _first(node, kind, pred=lambda n: True):
    for n in ast.walk(node):
        if isinstance(n, kind) and n is not node and pred(n):
            return n
    raise Untranslatable(f"no {kind.__name__} in {getattr(node, 'name', type(node).__name__)}")


def _mentions(node, name):
    return any(isinstance(n, ast.Name) and n.id == name for n in ast.walk(node))


def _loop_test(fn):
    """the test of the first `if` inside the first `for` of a generator function"""
    loop = next(s for s in _body(fn) if isinstance(s, ast.For) and any(isinstance(n, ast.If) for n in ast.walk(s)))
    return _first(loop, ast.If).test


def extract(repo, o):
    tree, _src = parse(os.path.join(repo, PATH))

    def by_gene_keep():
        fn = find_func(tree, "gene_metrics_by_gene")
        t = GFn(num="Rat", first=sig(fn))
        return t, "Bool", "decide " + t.cond(_loop_test(fn), {})
    emit_gtyped(o, "src_gene_metrics_by_gene_keep", by_gene_keep,
               "reports.gene_metrics_by_gene: the row of a gene group is reported")

    def by_segment_keep():
        fn = find_func(tree, "gene_metrics_by_segment")
        t = GFn(num="Rat", first=sig(fn))
        return t, "Bool", "decide " + t.cond(_loop_test(fn), {})
    emit_gtyped(o, "src_gene_metrics_by_segment_keep", by_segment_keep,
               "reports.gene_metrics_by_segment: the genes inside a segment are reported")

    def group_ignore():
        fn = find_func(tree, "group_by_genes")
        s = next(s for s in _body(fn) if isinstance(s, ast.Assign))
        t = GFn(elem="String")
        body, ty = t.expr(s.value, {})
        if ty != "List String":
            raise Untranslatable(f"the skip list has type {ty}")
        return t, "List String", body
    emit_gtyped(o, "src_group_by_genes_ignore", group_ignore,
               "reports.group_by_genes: group labels that give no row (np.nan, equal to no label, is dropped)")

    emit_gtyped(o, "src_get_gene_intervals_ignore", lambda: ignore_list(find_func(tree, "get_gene_intervals")),
               "reports.get_gene_intervals: names that are no gene")

    def min_probes_if():
        fn = find_func(tree, "do_genemetrics")
        mp = fn.args.args[3].arg   # the parameter `min_probes`
        return fn, mp, _first(fn, ast.If, lambda n: _mentions(n.test, mp))

    def applies():
        _fn, mp, node = min_probes_if()
        t = GFn(hints={mp: "Nat"}, num="Nat", first=sig(_fn))
        return t, "Bool", "decide " + t.cond(node.test, {})
    emit_gtyped(o, "src_min_probes_applies", applies,
               "reports.do_genemetrics: the min_probes filter is applied at all (`if min_probes and len(table)`)")

    def keep():
        _fn, mp, node = min_probes_if()
        cmp_ = _first(node, ast.Compare, lambda n: _mentions(n, mp))
        t = GFn(num="Int", first=sig(_fn))
        return t, "Bool", "decide " + t.cond(cmp_, {})
    emit_gtyped(o, "src_min_probes_keep", keep, "reports.do_genemetrics: a row passes the min_probes filter")

    def breaks_parts():
        fn = find_func(tree, "get_breakpoints")
        outer = next(s for s in _body(fn) if isinstance(s, ast.For))
        inner = next(s for s in outer.body if isinstance(s, ast.For))
        return fn, outer, inner

    def outer_env(t, outer, inner):
        """names bound in the outer loop body before the inner loop: read where they are used; a binding outside the
        subset (`next_row = segments[i + 1]`) leaves the name free -- it is then a row whose fields are parameters"""
        env = {}
        for s in outer.body[:outer.body.index(inner)]:
            if isinstance(s, ast.Assign) and len(s.targets) == 1 and isinstance(s.targets[0], ast.Name):
                try:
                    GFn().expr(s.value, {})
                except Untranslatable:
                    continue
                env[s.targets[0].id] = ("LAZY", s.value, dict(env))
        return env

    def skip():
        _fn, outer, inner = breaks_parts()
        t = GFn(first=sig(_fn))
        env = outer_env(t, outer, inner)
        node = next(s for s in outer.body[:outer.body.index(inner)] if isinstance(s, ast.If))
        if not (len(node.body) == 1 and isinstance(node.body[0], ast.Continue) and not node.orelse):
            raise Untranslatable("the guard before the gene loop of get_breakpoints is not `if …: continue`")
        return t, "Bool", "decide " + t.cond(node.test, env)
    emit_gtyped(o, "src_get_breakpoints_skip", skip,
               "reports.get_breakpoints: the boundary after this segment is skipped (the next row is another chromosome)")

    def gene():
        _fn, outer, inner = breaks_parts()
        if not (isinstance(inner.target, ast.Tuple) and len(inner.target.elts) == 3
                and all(isinstance(x, ast.Name) for x in inner.target.elts)):
            raise Untranslatable("loop target of get_breakpoints: " + ast.unparse(inner.target))
        gname, gstarts, gend = (x.id for x in inner.target.elts)
        t = GFn(hints={gname: "String", gstarts: "List Int", gend: "Int"}, num="Int", elem="Int",
                first=sig(_fn) + [gname, gstarts, gend])
        env = outer_env(t, outer, inner)
        return t, BRK, t.step(list(inner.body), env, [], [])
    emit_gtyped(o, "src_get_breakpoints_gene", gene,
               "reports.get_breakpoints: ONE ITERATION of the loop over the genes of the chromosome: the rows appended for "
               "the gene (name, sorted starts, end) at the boundary after the current segment")


    def segment_mean():
        """segmetrics.segment_mean(cnarr, skip_low): the optional first step `cnarr = cnarr.drop_low_coverage()` is
        required to have exactly that shape and is left out -- the definition is a function of the columns of the rows
        that remain (which rows those are: ExprsByGene.src_drop_low_coverage_keeps)"""
        tree2, _ = parse(os.path.join(repo, "cnvlib/segmetrics.py"))
        fn = find_func(tree2, "segment_mean")
        tab, flag = fn.args.args[0].arg, fn.args.args[1].arg
        body = _body(fn)
        first = body[0]
        ok = (isinstance(first, ast.If) and isinstance(first.test, ast.Name) and first.test.id == flag and not first.orelse
              and len(first.body) == 1 and ast.unparse(first.body[0]) == f"{tab} = {tab}.drop_low_coverage()")
        if not ok:
            raise Untranslatable("segment_mean does not start with `if skip_low: cnarr = cnarr.drop_low_coverage()`")
        t = GFn(num="Rat", elem="Rat", table_names=(tab,), column_lists=True)
        return t, "Option Rat", t.step([_HasColumns().visit(s) for s in body[1:]], {}, [], [])
    emit_gtyped(o, "src_segment_mean", segment_mean,
               "segmetrics.segment_mean after its optional drop_low_coverage step, as a function of the remaining rows' "
               "columns; none = NaN")


    def group_row():
        """reports.group_by_genes: one iteration of its loop over `cnarr.by_gene()`"""
        fn = find_func(tree, "group_by_genes")
        body = _body(fn)
        loop = next(s for s in body if isinstance(s, ast.For))
        if not (isinstance(loop.target, ast.Tuple) and len(loop.target.elts) == 2
                and all(isinstance(x, ast.Name) for x in loop.target.elts)):
            raise Untranslatable("loop target of group_by_genes: " + ast.unparse(loop.target))
        gene, rows = (x.id for x in loop.target.elts)
        mean_target = next(s.targets[0].id for s in loop.body if isinstance(s, ast.Assign) and isinstance(s.value, ast.Call)
                           and isinstance(s.value.func, ast.Name) and s.value.func.id == "segment_mean"
                           and isinstance(s.targets[0], ast.Name))
        t = GFn(hints={gene: "String", mean_target: "Option Rat"}, num="Rat", elem="String", table_names=(rows,),
                column_lists=True, first=sig(fn) + [gene])
        t.opaque_calls = ("segment_mean",)
        env = {}
        for s in body[:body.index(loop)]:
            if isinstance(s, ast.Assign) and len(s.targets) == 1 and isinstance(s.targets[0], ast.Name):
                env[s.targets[0].id] = ("LAZY", s.value, dict(env))
        out = t.step([_HasColumns().visit(s) for s in loop.body], env, [], [])
        return t, "List (String × Int × Int × String × Option Rat × Rat × Rat × Nat)", out
    emit_gtyped(o, "src_group_by_genes_row", group_row,
               "reports.group_by_genes: ONE ITERATION of its loop over by_gene(): the row yielded for the group (label, "
               "rows), as (chromosome, start, end, gene, log2, depth, weight, probes); `segmean` is the value of "
               "segment_mean(rows, skip_low) (src_segment_mean), the lists are the columns of the group's rows")
