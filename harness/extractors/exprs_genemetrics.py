"""cnvlib/reports.py genemetrics / breaks selection logic -> Generated/ExprsGeneMetrics.lean (typed reading, see
harness/exprtrans.py).

Props/C16SrcReports.lean proves that the model's selection rules (`metricsByGene`, `metricsBySegment`,
`minProbesFilter`, `breaksAt`, `skipNames`, the ignore list of `geneIntervals`) ARE these generated definitions."""
import ast
import os

from ..exprtrans import TFn, Untranslatable, emit_typed
from ..translate import find_func, parse
from .exprs_bygene import _body, ignore_list

NAME = "ExprsGeneMetrics"
IMPORTS = ["CnvVerif.Generated.Consts"]
PATH = "cnvlib/reports.py"
BRK = "List (String × String × Int × Rat × Nat × Nat)"


def _first(node, kind, pred=lambda n: True):
    for n in ast.walk(node):
        if isinstance(n, kind) and n is not node and pred(n):
            return n
    raise Untranslatable(f"no {kind.__name__} in {getattr(node, 'name', type(node).__name__)}")


def _mentions(node, name):
    return any(isinstance(n, ast.Name) and n.id == name for n in ast.walk(node))


def _loop_test(fn):
    """the test of the first `if` inside the first `for` of a generator function"""
    loop = next(s for s in _body(fn) if isinstance(s, ast.For) and any(isinstance(n, ast.If) for n in ast.walk(s)))
    return _first(loop, ast.If).test


def extract(repo, o):
    tree, _src = parse(os.path.join(repo, PATH))

    def by_gene_keep():
        t = TFn(num="Rat")
        return t, "Bool", "decide " + t.cond(_loop_test(find_func(tree, "gene_metrics_by_gene")), {})
    emit_typed(o, "src_gene_metrics_by_gene_keep", by_gene_keep,
               "reports.gene_metrics_by_gene: the row of a gene group is reported")

    def by_segment_keep():
        t = TFn(num="Rat")
        return t, "Bool", "decide " + t.cond(_loop_test(find_func(tree, "gene_metrics_by_segment")), {})
    emit_typed(o, "src_gene_metrics_by_segment_keep", by_segment_keep,
               "reports.gene_metrics_by_segment: the genes inside a segment are reported")

    def group_ignore():
        fn = find_func(tree, "group_by_genes")
        s = next(s for s in _body(fn) if isinstance(s, ast.Assign))
        t = TFn(elem="String")
        body, ty = t.expr(s.value, {})
        if ty != "List String":
            raise Untranslatable(f"the skip list has type {ty}")
        return t, "List String", body
    emit_typed(o, "src_group_by_genes_ignore", group_ignore,
               "reports.group_by_genes: group labels that give no row (np.nan, equal to no label, is dropped)")

    emit_typed(o, "src_get_gene_intervals_ignore", lambda: ignore_list(find_func(tree, "get_gene_intervals")),
               "reports.get_gene_intervals: names that are no gene")

    def min_probes_if():
        fn = find_func(tree, "do_genemetrics")
        mp = fn.args.args[3].arg   # the parameter `min_probes`
        return fn, mp, _first(fn, ast.If, lambda n: _mentions(n.test, mp))

    def applies():
        _fn, mp, node = min_probes_if()
        t = TFn(hints={mp: "Nat"}, num="Nat")
        return t, "Bool", "decide " + t.cond(node.test, {})
    emit_typed(o, "src_min_probes_applies", applies,
               "reports.do_genemetrics: the min_probes filter is applied at all (`if min_probes and len(table)`)")

    def keep():
        _fn, mp, node = min_probes_if()
        cmp_ = _first(node, ast.Compare, lambda n: _mentions(n, mp))
        t = TFn(num="Int")
        return t, "Bool", "decide " + t.cond(cmp_, {})
    emit_typed(o, "src_min_probes_keep", keep, "reports.do_genemetrics: a row passes the min_probes filter")

    def breaks_parts():
        fn = find_func(tree, "get_breakpoints")
        outer = next(s for s in _body(fn) if isinstance(s, ast.For))
        inner = next(s for s in outer.body if isinstance(s, ast.For))
        return fn, outer, inner

    def outer_env(t, outer, inner):
        """names bound in the outer loop body before the inner loop: read where they are used; a binding outside the
        subset (`next_row = segments[i + 1]`) leaves the name free -- it is then a row whose fields are parameters"""
        env = {}
        for s in outer.body[:outer.body.index(inner)]:
            if isinstance(s, ast.Assign) and len(s.targets) == 1 and isinstance(s.targets[0], ast.Name):
                try:
                    TFn().expr(s.value, {})
                except Untranslatable:
                    continue
                env[s.targets[0].id] = ("LAZY", s.value, dict(env))
        return env

    def skip():
        _fn, outer, inner = breaks_parts()
        t = TFn()
        env = outer_env(t, outer, inner)
        node = next(s for s in outer.body[:outer.body.index(inner)] if isinstance(s, ast.If))
        if not (len(node.body) == 1 and isinstance(node.body[0], ast.Continue) and not node.orelse):
            raise Untranslatable("the guard before the gene loop of get_breakpoints is not `if …: continue`")
        return t, "Bool", "decide " + t.cond(node.test, env)
    emit_typed(o, "src_get_breakpoints_skip", skip,
               "reports.get_breakpoints: the boundary after this segment is skipped (the next row is another chromosome)")

    def gene():
        _fn, outer, inner = breaks_parts()
        if not (isinstance(inner.target, ast.Tuple) and len(inner.target.elts) == 3
                and all(isinstance(x, ast.Name) for x in inner.target.elts)):
            raise Untranslatable("loop target of get_breakpoints: " + ast.unparse(inner.target))
        gname, gstarts, gend = (x.id for x in inner.target.elts)
        t = TFn(hints={gname: "String", gstarts: "List Int", gend: "Int"}, num="Int", elem="Int")
        env = outer_env(t, outer, inner)
        return t, BRK, t.step(list(inner.body), env, [], [])
    emit_typed(o, "src_get_breakpoints_gene", gene,
               "reports.get_breakpoints: ONE ITERATION of the loop over the genes of the chromosome: the rows appended for "
               "the gene (name, sorted starts, end) at the boundary after the current segment")
