"""The branch structure of cnvlib/call.py:do_call as a WHOLE -> Generated/ExprsDoCall.lean (step-plan reader,
harness/stepplan.py): which effects on the output table run, in which order, under which tests.  Re-read on every run.
Props/C01SrcDoCall.lean proves that the model's `c01wPlan` (Model/CallExt5.lean) is this plan for every value of the atoms,
and that `c01wDoCall` does, row by row, what the plan says (which columns are written on which branch).

Atoms (source text -> Bool parameter).  `filters` is tested twice: the second time it is the list AFTER the removals of the
first loop; a `for` over an empty list runs no iteration, so both tests read the same atom and the model runs the second loop
over the remaining list.  `'baf' in outarr` is tested after `variants` may have added the column.
"""
import ast
import os

from ..stepplan import emit_plan
from ..exprtrans import Untranslatable

NAME = "ExprsDoCall"
PATH = "cnvlib/call.py"
TYP = "DoCallStep"

ATOMS = [
    ("method not in ('threshold', 'clonal', 'none')", "methodInvalid"),
    ("filters", "filtersGiven"),
    ("variants", "variantsGiven"),
    ("purity", "purityTruthy"),
    ("purity < 1.0", "purityBelowOne"),
    ("purity < 1", "purityBelowOne"),
    ("method == 'clonal'", "methodClonal"),
    ("method == 'threshold'", "methodThreshold"),
    ("method != 'none'", "methodNotNone"),
    ("'baf' in outarr", "bafColumn"),
]
STEPS = [
    ("raise ValueError", "raiseValueError"),
    ("outarr = cnarr.copy()", "copyInput"),
    ("filters = list(filters)", "copyFilters"),
    ("for filt in ('ci', 'sem')", "preFilterLoop"),
    ("for filt in ['ci', 'sem']", "preFilterLoop"),
    ("outarr['baf'] = variants.baf_by_ranges(outarr)", "bafFromVariants"),
    ("absolutes = absolute_clonal(outarr, ploidy, purity, is_haploid_x_reference, diploid_parx_genome, is_sample_female)",
     "absClonal"),
    ("outarr['log2'] = log2_ratios(outarr, absolutes, ploidy, is_haploid_x_reference, diploid_parx_genome)", "log2Rewrite"),
    ("outarr['baf'] = rescale_baf(purity, outarr['baf'])", "bafRescale"),
    ("absolutes = absolute_pure(outarr, ploidy, is_haploid_x_reference)", "absPure"),
    ("tokens = ['%g => %d' % (thr, i) for i, thr in enumerate(thresholds)]", None),   # text of the log line only
    ("absolutes = absolute_threshold(outarr, ploidy, thresholds, is_haploid_x_reference)", "absThreshold"),
    ("outarr['cn'] = absolutes.round().astype('int')", "writeCn"),
    ("upper_baf = ((outarr['baf'] - 0.5).abs() + 0.5).fillna(1.0).values", "upperBaf"),
    ("outarr['cn1'] = (absolutes * upper_baf).round().clip(0, outarr['cn']).astype('int')", "writeCn1"),
    ("outarr['cn2'] = outarr['cn'] - outarr['cn1']", "writeCn2"),
    ("is_null = outarr['baf'].isnull() & (outarr['cn'] > 0)", "nullMask"),
    ("outarr[is_null, 'cn1'] = np.nan", "nullCn1"),
    ("outarr[is_null, 'cn2'] = np.nan", "nullCn2"),
    ("for filt in filters", "postFilterLoop"),
    ("outarr.sort_columns()", "sortColumns"),
    ("return outarr", "returnOut"),
    # one iteration of the two loops
    ("outarr = getattr(segfilters, filt)(outarr)", "applyFilter"),
    ("filters.remove(filt)", "removeFromFilters"),
    ("outarr.data = outarr.data.reset_index(drop=True)", "resetIndex"),
]
PRE_ATOMS = [("filt in filters", "filtInFilters")]
POST_ATOMS = [("outarr.data.index.is_unique", "indexUnique")]


def _strs(node):
    if isinstance(node, (ast.Tuple, ast.List)) and all(isinstance(e, ast.Constant) and isinstance(e.value, str) for e in node.elts):
        return "[" + ", ".join('"' + e.value + '"' for e in node.elts) + "]"
    raise Untranslatable("not a literal sequence of strings: " + ast.unparse(node))


def extract(repo, o):
    from ..translate import parse, find_func
    tree, _src = parse(os.path.join(repo, PATH))
    fn = find_func(tree, "do_call")
    ctors = []
    for _t, c in STEPS:
        if c and c not in ctors:
            ctors.append(c)
    o.lines.append("/-- the effects of `do_call` on its output table, one constructor per statement -/")
    o.lines.append(f"inductive {TYP} | " + " | ".join(ctors) + "\n  deriving DecidableEq, Repr")
    loops = emit_plan(o, fn, "src_do_call_plan", ATOMS, STEPS, TYP,
                      comment="call.do_call: the steps that run, in order, as a function of its tests", where=PATH + ":do_call")
    by = {name: node for name, node in (loops or [])}
    for step, lean, atoms, doc in (("preFilterLoop", "src_do_call_pre_iter", PRE_ATOMS, "one iteration of the first filter loop"),
                                   ("postFilterLoop", "src_do_call_post_iter", POST_ATOMS, "one iteration of the second filter loop")):
        if step in by:
            emit_plan(o, fn, lean, atoms, STEPS, TYP, comment="call.do_call: " + doc, where=PATH + ":do_call " + step,
                      body=by[step].body)
        else:
            o.lines.append(f"-- NOT TRANSLATED: {PATH}:do_call has no loop {step}")
            o.info[lean] = {"error": "loop not found"}
    # the literal name lists the tests and the first loop read
    try:
        guard = fn.body[1] if (isinstance(fn.body[0], ast.Expr) and isinstance(fn.body[0].value, ast.Constant)) else fn.body[0]
        test = guard.test
        if not (isinstance(test, ast.Compare) and len(test.ops) == 1 and isinstance(test.ops[0], ast.NotIn)
                and isinstance(test.left, ast.Name) and test.left.id == "method"):
            raise Untranslatable("first statement is not `if method not in (..)`")
        o.lines.append("/-- call.do_call: the accepted values of `method` -/\n"
                       f"def src_do_call_methods : List String := {_strs(test.comparators[0])}")
        o.info["src_do_call_methods"] = {"ok": True}
        if "preFilterLoop" not in by:
            raise Untranslatable("no first filter loop")
        o.lines.append("/-- call.do_call: the filters applied before calling, in this order -/\n"
                       f"def src_do_call_pre_filters : List String := {_strs(by['preFilterLoop'].iter)}")
        o.info["src_do_call_pre_filters"] = {"ok": True}
    except (Untranslatable, AttributeError, IndexError) as e:
        o.lines.append(f"-- NOT TRANSLATED: {PATH}:do_call name lists: {str(e)[:160]}".replace("\n", " "))
        o.info["src_do_call_methods"] = {"error": str(e)[:160]}
