"""Source expressions -> Generated/ExprsFixWeight.lean (see harness/exprtrans.py for the reading of the Python subset):
the weight formulas of `fix.apply_weights` as SLICES (the formula each statement evaluates, elementwise).
Props/C04SrcWeight.lean proves that the model's one-bin weight formula is their composition."""
from ..exprtrans import emit_slices

NAME = "ExprsFixWeight"
W = "cnvlib/fix.py", "apply_weights"
SLICE_SPECS = [
    W + ("tgt_simple_wts", "src_weight_simple_target", None, None,
         "apply_weights: size/variance weight of an on-target bin (bin_sz = sqrt of the bin size)"),
    W + ("anti_simple_wts", "src_weight_simple_antitarget", None, None,
         "apply_weights: the same for an off-target bin"),
    W + ("fancy_wt", "src_weight_fancy", None, None,
         "apply_weights: reference-spread weight (ref_matched = the row's value in the chosen spread column)"),
    W + ("weights#0", "src_weight_pooled", {"fancy_wt": "src_weight_fancy"}, None,
         "apply_weights: the weight with a pooled reference (x is the literal bound in the function)"),
    W + ("weights#1", "src_weight_flat", None, None, "apply_weights: the weight with a flat reference"),
    W + ("call:clip", "src_weight_clip", None, None, "apply_weights: the final clip"),
]


def extract(repo, o):
    emit_slices(repo, o, SLICE_SPECS)
