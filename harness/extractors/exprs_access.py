"""Source loops -> Generated/ExprsAccess.lean (see harness/looptrans.py for the reading of the Python subset).

`cnvlib/access.py:get_regions` (the `for line in infile:` state machine: header / blank / all-N / mixed / N-free
line, and the flush after the loop) and `join_regions` (the `for start, end in coords:` loop with `gap <
min_gap_size`, the flush after it, and `min_gap_size or 0`) are re-read on every run.  Props/C13Src.lean proves that
the hand-written `stepLine` / `scanFile` / `joinGo` of Model/Access.lean EQUAL these generated definitions, so an edit
to a branch, an index or a comparison in /repo changes the generated term and breaks that proof obligation."""
from ..looptrans import emit_loop, emit_value

NAME = "ExprsAccess"
IMPORTS = ["CnvVerif.Model.PyPrims"]


def extract(repo, o):
    o.lines.append("set_option linter.unusedVariables false\nopen CnvVerif\n")
    emit_loop(repo, o, "cnvlib/access.py", "get_regions", "src_get_regions", ("line",),
              state=[("chrom", "List Char"), ("cursor", "Nat"), ("run_start", "Option Nat")],
              elem=[("line", "List Char")], params=[],
              ytype="(List Char × Nat × Nat)",
              comment="access.get_regions, `for line in infile:`")
    emit_loop(repo, o, "cnvlib/access.py", "join_regions", "src_join_regions", ("start", "end"),
              state=[("prev_start", "Int"), ("prev_end", "Int")],
              elem=[("start", "Int"), ("end", "Int")],
              params=[("min_gap_size", "Int"), ("chrom", "String")],
              ytype="(String × Int × Int)",
              comment="access.join_regions, `for start, end in coords:` (one chromosome)")
    emit_value(repo, o, "cnvlib/access.py", "join_regions", "src_join_regions_min_gap", "min_gap_size",
               params=[("min_gap_size", "Option Int")], rtype="Int",
               comment="access.join_regions: `min_gap_size = min_gap_size or 0`")
