"""Yield structure of skgenome/tabio/vcfio.py `_parse_pedigrees` -> Generated/VcfPedKeys.lean (see harness/yieldtrans.py for the
reading).

`_parse_pedigrees` is a generator: an `if / elif / elif` chain over the keys of the header's `meta` selects ONE of three
conventions; the PEDIGREE and the legacy-MuTect arm loop over the records of their key and yield at most one pair per record,
the MuTect2 arm looks at the sample columns.  The ORDER of the keys, which arm each key selects, and what one pass of each arm
yields under which condition are re-read from the source on every run; the conditions and yielded expressions themselves are the
vocabulary below (source text -> name).  Props/C18SrcPed.lean proves that `headerPairs`, `pedPairs`, `mutectPairs` and
`mutect2Pairs` of Model/VcfPairs.lean are these structures under the stated reading of each atom on the model's data."""
import os

from ..yieldtrans import emit_yield_fn

NAME = "VcfPedKeys"
PATH = "skgenome/tabio/vcfio.py"

CHAIN_ATOMS = [("'PEDIGREE' in meta", "hasPedigree"), ("'GATKCommandLine' in meta", "hasGatk"),
               ("'GATKCommandLine.MuTect2' in meta", "hasMutect2")]
_OPTS = "dict((kv.split('=', 1) for kv in tag['CommandLineOptions'].strip('\"').split() if '=' in kv))"
ARMS = {
    "for tag in meta['PEDIGREE']": dict(ctor="PedArm.eachPedigreeTag", lean="src_parse_pedigrees_pedigree_tag",
                                        atoms=[("'Derived' in tag", "hasDerived")]),
    "for tag in meta['GATKCommandLine']": dict(ctor="PedArm.eachGatkTag", lean="src_parse_pedigrees_gatk_tag",
                                               atoms=[("tag.get('ID') == 'MuTect'", "idIsMuTect")]),
    "": dict(ctor="PedArm.sampleColumns", lean="src_parse_pedigrees_mutect2",
             atoms=[("len(vcf_reader.header.samples) == 2", "twoSamples"),
                    ("tuple(vcf_reader.header.samples) == ('NORMAL', 'TUMOR')", "columnsAreNormalTumor")]),
}
LEAVES = [("(tag['Derived'], tag['Original'])", "PedYield.derivedOriginal"),
          (f"({_OPTS}.get('tumor_sample_name'), {_OPTS}['normal_sample_name'])", "PedYield.mutectOptions"),
          ("('TUMOR', 'NORMAL')", "PedYield.tumorNormalLiteral"),
          ("tuple(vcf_reader.header.samples)", "PedYield.columnsInFileOrder")]


def extract(repo, o):
    from ..translate import parse
    tree, _src = parse(os.path.join(repo, PATH))
    o.lines.append("/-- which arm of `_parse_pedigrees` runs -/")
    o.lines.append("inductive PedArm | eachPedigreeTag | eachGatkTag | sampleColumns | nothing\n  deriving DecidableEq, Repr")
    o.lines.append("/-- what one pass of an arm of `_parse_pedigrees` yields -/")
    o.lines.append("inductive PedYield | derivedOriginal | mutectOptions | tumorNormalLiteral | columnsInFileOrder | nothing\n"
                   "  deriving DecidableEq, Repr")
    emit_yield_fn(o, tree, "_parse_pedigrees", "src_parse_pedigrees_arm", CHAIN_ATOMS, ARMS, LEAVES, "PedArm", "PedYield",
                  "PedArm.nothing", "PedYield.nothing",
                  comment="vcfio._parse_pedigrees: the key precedence of the if / elif / elif chain", where=PATH)
