"""Source expressions -> Generated/ExprsBaf.lean (see harness/exprtrans.py for the reading of the Python subset).
Props prove that the hand-written model functions equal these generated ones, so an edit to a formula in /repo
changes the generated term and breaks that proof obligation."""
from ..exprtrans import emit

NAME = "ExprsBaf"
SPECS = [
    ("cnvlib/call.py", "rescale_baf", "src_rescale_baf", {}, "call.rescale_baf"),
]


def extract(repo, o):
    emit(repo, o, SPECS)
