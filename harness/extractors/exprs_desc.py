"""Source bodies of the estimators of cnvlib/descriptives.py -> Generated/ExprsDesc.lean (see harness/vectrans.py for
the typed reading of the numpy subset).  Props/C19SrcDesc.lean proves that the hand-written model functions equal
these generated ones, so an edit to a formula in /repo changes the generated term and breaks that proof obligation."""
from ..vectrans import emit

NAME = "ExprsDesc"
IMPORTS = ["CnvVerif.Model.NpVec"]
V = "vec"
SPECS = [
    ("cnvlib/descriptives.py", "median_absolute_deviation", "src_median_absolute_deviation",
     {"types": {"a": V, "scale_to_sd": "bool"}}, "descriptives.median_absolute_deviation (behind its decorator)"),
    ("cnvlib/descriptives.py", "interquartile_range", "src_interquartile_range", {"types": {"a": V}},
     "descriptives.interquartile_range (behind its decorator)"),
    ("cnvlib/descriptives.py", "gapper_scale", "src_gapper_scale", {"types": {"a": V}},
     "descriptives.gapper_scale; sqrt(pi) is the parameter sqrt_pi"),
    ("cnvlib/descriptives.py", "q_n", "src_q_n", {"types": {"a": V}, "opaque": {"vals": V}},
     "descriptives.q_n after its double loop: `vals` = the pairwise distances |x_i - x_j|, i < j"),
    ("cnvlib/descriptives.py", "weighted_std", "src_weighted_std", {"types": {"a": V, "weights": V}},
     "descriptives.weighted_std (behind its decorator): root of the returned radicand"),
    ("cnvlib/descriptives.py", "biloc_iter", "src_biloc_iter", {"types": {"a": V}},
     "one step of descriptives.biweight_location (its nested function; c, epsilon are the enclosing function's options)"),
    ("cnvlib/descriptives.py", "biweight_midvariance", "src_biweight_midvariance", {"types": {"a": V}, "given": ["initial"]},
     "descriptives.biweight_midvariance about a given centre `initial` (behind its decorator)"),
    ("cnvlib/descriptives.py", "weighted_median", "src_weighted_median", {"types": {"a": V, "weights": V}},
     "descriptives.weighted_median (behind its decorator); `order` = the permutation a.argsort() returned"),
]


def extract(repo, o):
    emit(repo, o, SPECS)
