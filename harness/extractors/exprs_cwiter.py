"""cnvlib/smoothing.py:convolve_weighted -> Generated/ExprsCwIter.lean (see harness/cwloop.py for the reading of the loop).
Props/C19SrcIter.lean proves the generated function equal to the model's `C19Iter.convolveWeighted` for every input and
every n_iter, so an edit to the loop (a dropped weight update, the numerator taken with the initial weights, a different
range) changes the generated term and breaks that obligation."""
from ..cwloop import emit

NAME = "ExprsCwIter"
IMPORTS = ["CnvVerif.Model.SmoothIterPrimExt5b"]
SPECS = [("cnvlib/smoothing.py", "convolve_weighted", "src_convolve_weighted", "smoothing.convolve_weighted")]


def extract(repo, o):
    emit(repo, o, SPECS)
