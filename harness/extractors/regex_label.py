"""skgenome/rangelabel.py: the pattern of `re_label` -> Generated/RegexLabel.lean (a regex AST, re-read on every run).

  re_label = re.compile(r"(\\w[\\w.]*)?:(\\d+)?-(\\d+)?\\s*(\\S+)?")   ->   src_re_label : C08L.Re
  from_label: `re_label.<method>(text)`                                  ->   src_re_label_method : String

`Props/C08Label.lean` proves that the hand-written parser `Fmt.fromLabel` returns, for every text, the groups of
`src_re_label` under the backtracking semantics of `Model/FormatsExt5Label.lean` — so an edit of the pattern that
changes what it accepts or captures changes the generated term and breaks that proof obligation.

Reading rule (trusted): the pattern text is parsed by Python's own `re._parser.parse` (so escapes, classes and
quantifiers mean what `re` says they mean) and the parse tree is mapped node by node:
  * LITERAL c                      -> one [ch c]
  * IN [items] (not negated)       -> one [items]; items: CATEGORY_WORD -> word, CATEGORY_DIGIT -> digit,
                                      CATEGORY_SPACE -> space, CATEGORY_NOT_SPACE -> notSpace, LITERAL c -> ch c
  * MAX_REPEAT 0..inf of a single-character node -> star cls;  1..inf -> plus cls;  0..1 of anything -> opt
  * SUBPATTERN n (no flags)        -> grp n
  * a sequence                     -> right-nested seq (empty sequence: eps)
`re.compile` must be called with the pattern only (no flags).  Anything else raises `Untranslatable`: the generated
file then carries a comment instead of the definition and the theorems about it stop checking (never silence).
Character categories are read on ASCII input, as everywhere in the C08 model.
"""
from __future__ import annotations

import ast
import os

from ..exprtrans import Untranslatable
from ..translate import parse, find_func, lstr

NAME = "RegexLabel"
IMPORTS = ["CnvVerif.Model.FormatsExt5Label"]

_CATS = {"CATEGORY_WORD": ".word", "CATEGORY_DIGIT": ".digit", "CATEGORY_SPACE": ".space", "CATEGORY_NOT_SPACE": ".notSpace"}


def _lchar(code):
    if 32 <= code < 127 and chr(code) not in "'\\":
        return f"'{chr(code)}'"
    return f"(Char.ofNat {code})"


def _atom(item):
    op, av = item
    name = str(op)
    if name == "LITERAL":
        return f".ch {_lchar(av)}"
    if name == "CATEGORY":
        cat = str(av)
        if cat in _CATS:
            return _CATS[cat]
        raise Untranslatable(f"character category {cat}")
    raise Untranslatable(f"class item {name}")


def _cls(node):
    """the class of a node that consumes exactly one character, else None"""
    op, av = node
    name = str(op)
    if name == "LITERAL":
        return "[" + _atom(node) + "]"
    if name == "IN":
        return "[" + ", ".join(_atom(i) for i in av) + "]"
    return None


def _seq(items):
    items = list(items)
    if not items:
        return ".eps"
    out = _node(items[-1])
    for it in reversed(items[:-1]):
        out = f".seq ({_node(it)}) ({out})"
    return out


def _node(node):
    import re._constants as c
    op, av = node
    name = str(op)
    cls = _cls(node)
    if cls is not None:
        return f".one {cls}"
    if name == "MAX_REPEAT":
        lo, hi, sub = av
        sub = list(sub)
        if (lo, hi) == (0, 1):
            return f".opt ({_seq(sub)})"
        if hi == c.MAXREPEAT and lo in (0, 1) and len(sub) == 1 and _cls(sub[0]) is not None:
            return f".{'star' if lo == 0 else 'plus'} {_cls(sub[0])}"
        raise Untranslatable(f"repeat {lo}..{hi}")
    if name == "SUBPATTERN":
        group, add_flags, del_flags, sub = av
        if group is None or add_flags or del_flags:
            raise Untranslatable("non-capturing / flagged group")
        return f".grp {group} ({_seq(sub)})"
    raise Untranslatable(f"regex node {name}")


def regex_to_lean(pattern: str) -> str:
    import re._parser as p
    tree = p.parse(pattern)
    if tree.state.flags & ~32:   # 32 = re.UNICODE, the default of str patterns
        raise Untranslatable("inline flags")
    return _seq(list(tree))


def extract(repo, o):
    try:
        tree, _src = parse(os.path.join(repo, "skgenome", "rangelabel.py"))
        pat = None
        for node in tree.body:
            if isinstance(node, ast.Assign) and getattr(node.targets[0], "id", None) == "re_label":
                call = node.value
                if not (isinstance(call, ast.Call) and len(call.args) == 1 and not call.keywords):
                    raise Untranslatable("re_label is not re.compile(<pattern>)")
                pat = ast.literal_eval(call.args[0])
        if pat is None:
            raise Untranslatable("re_label not found")
        lean = regex_to_lean(pat)
        fn = find_func(tree, "from_label")
        methods = [n.func.attr for n in ast.walk(fn)
                   if isinstance(n, ast.Call) and isinstance(n.func, ast.Attribute)
                   and isinstance(n.func.value, ast.Name) and n.func.value.id == "re_label"]
        if len(methods) != 1:
            raise Untranslatable("from_label does not call re_label exactly once")
    except (Untranslatable, KeyError, OSError, SyntaxError, ValueError) as e:
        o.lines.append(f"-- UNTRANSLATABLE re_label: {type(e).__name__}: {e}")
        return
    o.defn("src_re_label", "CnvVerif.Fmt.C08L.Re", lean, f"rangelabel.re_label = {lstr(pat)} as parsed by Python's re")
    o.defn("src_re_label_method", "String", lstr(methods[0]), "how from_label applies it: re_label.<method>(text)")
