"""Table filters of skgenome/tabio/vcfio.py `read_vcf` -> Generated/VcfFilters.lean

`read_vcf` drops rows twice after the table is built:

    if min_depth:
        if table["depth"].any():
            dkey = "n_depth" if "n_depth" in table.columns else "depth"
            idx_depth = table[dkey] >= min_depth
            ...
            table = table[idx_depth]
    if skip_somatic:
        idx_som = table["somatic"]
        ...
        table = table[~idx_som]

Reading (trusted): inside the `if <param>:` statement of `read_vcf` whose test is the bare parameter name, a mask variable is
the target of an assignment whose value is either a comparison between `table[<key>]` and the parameter, or `table[<col>]`
itself; the rows kept are `table[mask]` (mask as is) or `table[~mask]` (mask negated) in the LAST `table = table[...]`
assignment of that statement.  The comparison operator is taken as written, mirrored when the parameter stands on the left
(`min_depth <= table[dkey]`), negated when the mask is applied with `~`.  `dkey` is a conditional expression
`<a> if <a> in table.columns else <b>`; the inner `if table[<col>].any():` names the column whose truthiness decides whether
the depth filter runs at all.  Names of the local variables are free.  Anything else raises, i.e. is reported as a
translation error.  Props/C18SrcFilt.lean proves that `depthFilter` / `somaticFilter` of Model/Vcf.lean are these."""
import ast
import os

from ..translate import parse, find_func, lstr

NAME = "VcfFilters"
PATH = "skgenome/tabio/vcfio.py"

_OPS = {ast.GtE: "≥", ast.Gt: ">", ast.LtE: "≤", ast.Lt: "<", ast.Eq: "=", ast.NotEq: "≠"}
_MIRROR = {ast.GtE: ast.LtE, ast.LtE: ast.GtE, ast.Gt: ast.Lt, ast.Lt: ast.Gt, ast.Eq: ast.Eq, ast.NotEq: ast.NotEq}
_NEG = {ast.GtE: ast.Lt, ast.Lt: ast.GtE, ast.Gt: ast.LtE, ast.LtE: ast.Gt, ast.Eq: ast.NotEq, ast.NotEq: ast.Eq}


def _guarded(fn, param):
    for st in fn.body:
        if isinstance(st, ast.If) and isinstance(st.test, ast.Name) and st.test.id == param and not st.orelse:
            return st
    raise ValueError(f"read_vcf: no `if {param}:` statement")


def _table_sub(e):
    """`table[<x>]` -> x"""
    if isinstance(e, ast.Subscript) and isinstance(e.value, ast.Name) and e.value.id == "table":
        return e.slice
    return None


def _kept(stmts):
    """the last `table = table[mask]` / `table = table[~mask]` among stmts -> (mask name, negated)"""
    out = None
    for st in stmts:
        if isinstance(st, ast.Assign) and len(st.targets) == 1 and isinstance(st.targets[0], ast.Name) \
                and st.targets[0].id == "table":
            s = _table_sub(st.value)
            if isinstance(s, ast.Name):
                out = (s.id, False)
            elif isinstance(s, ast.UnaryOp) and isinstance(s.op, ast.Invert) and isinstance(s.operand, ast.Name):
                out = (s.operand.id, True)
            else:
                raise ValueError("read_vcf: `table = ...` inside a filter is not table[mask] / table[~mask]")
    if out is None:
        raise ValueError("read_vcf: filter without `table = table[mask]`")
    return out


def _assigned(stmts, name):
    vals = [st.value for st in stmts if isinstance(st, ast.Assign) and len(st.targets) == 1
            and isinstance(st.targets[0], ast.Name) and st.targets[0].id == name]
    if len(vals) != 1:
        raise ValueError(f"read_vcf: `{name}` is not assigned exactly once in its filter")
    return vals[0]


def _const_str(e):
    if isinstance(e, ast.Constant) and isinstance(e.value, str):
        return e.value
    raise ValueError("read_vcf: column key is not a string literal")


def extract(repo, o):
    tree, _src = parse(os.path.join(repo, PATH))
    fn = find_func(tree, "read_vcf")
    # ---- min_depth ---------------------------------------------------------------------------------------------------
    outer = _guarded(fn, "min_depth")
    if len(outer.body) != 1 or not isinstance(outer.body[0], ast.If):
        raise ValueError("read_vcf: `if min_depth:` does not hold exactly one inner `if`")
    inner = outer.body[0]
    t = inner.test
    if not (isinstance(t, ast.Call) and not t.args and isinstance(t.func, ast.Attribute) and t.func.attr == "any"
            and _table_sub(t.func.value) is not None):
        raise ValueError("read_vcf: inner guard is not table[<col>].any()")
    guard_col = _const_str(_table_sub(t.func.value))
    for st in inner.orelse:  # the else arm may only log
        if not (isinstance(st, ast.Expr) and isinstance(st.value, ast.Call)):
            raise ValueError("read_vcf: the else arm of the depth guard does more than log")
    mask, negated = _kept(inner.body)
    cmp_ = _assigned(inner.body, mask)
    if not (isinstance(cmp_, ast.Compare) and len(cmp_.ops) == 1):
        raise ValueError("read_vcf: the depth mask is not a single comparison")
    lhs, rhs, op = cmp_.left, cmp_.comparators[0], type(cmp_.ops[0])
    if isinstance(lhs, ast.Name) and lhs.id == "min_depth":
        lhs, rhs, op = rhs, lhs, _MIRROR[op]
    if not (isinstance(rhs, ast.Name) and rhs.id == "min_depth" and isinstance(_table_sub(lhs), ast.Name)):
        raise ValueError("read_vcf: the depth mask does not compare table[<key>] with min_depth")
    if negated:
        op = _NEG[op]
    key = _assigned(inner.body, _table_sub(lhs).id)
    if not (isinstance(key, ast.IfExp) and isinstance(key.test, ast.Compare) and len(key.test.ops) == 1
            and isinstance(key.test.ops[0], ast.In) and ast.unparse(key.test.comparators[0]) == "table.columns"
            and _const_str(key.test.left) == _const_str(key.body)):
        raise ValueError("read_vcf: dkey is not `<a> if <a> in table.columns else <b>`")
    o.defn("srcDepthGuardCol", "String", lstr(guard_col),
           "read_vcf: the column whose `.any()` decides whether the min_depth filter runs at all")
    o.lines.append("/-- read_vcf: the column the min_depth filter compares, by whether the table has the normal's columns -/")
    o.lines.append(f"def srcDepthKey (hasNormalDepth : Bool) : String := if hasNormalDepth then {lstr(_const_str(key.body))} "
                   f"else {lstr(_const_str(key.orelse))}")
    o.defn("srcDepthKeyProbe", "String", lstr(_const_str(key.test.left)), "… and the column whose presence it asks for")
    o.lines.append("/-- read_vcf: a row stays under `min_depth = m` iff its `dkey` value d satisfies this (operator as written, "
                   "mirrored / negated as the mask is applied) -/")
    o.lines.append(f"def srcDepthKeep (d m : Rat) : Bool := decide (d {_OPS[op]} m)")
    # ---- skip_somatic ------------------------------------------------------------------------------------------------
    som = _guarded(fn, "skip_somatic")
    mask, negated = _kept(som.body)
    col = _table_sub(_assigned(som.body, mask))
    if col is None:
        raise ValueError("read_vcf: the somatic mask is not table[<col>]")
    o.defn("srcSomaticCol", "String", lstr(_const_str(col)), "read_vcf: the column the skip_somatic filter looks at")
    o.lines.append("/-- read_vcf: a row stays under skip_somatic iff its flag satisfies this -/")
    o.lines.append(f"def srcSomaticKeep (flag : Bool) : Bool := {'!flag' if negated else 'flag'}")
    # ---- the order of the two filters --------------------------------------------------------------------------------
    order = [st.test.id for st in fn.body if isinstance(st, ast.If) and isinstance(st.test, ast.Name)
             and st.test.id in ("min_depth", "skip_somatic")]
    o.defn("srcFilterOrder", "List String", "[" + ", ".join(lstr(x) for x in order) + "]",
           "read_vcf: the filters in the order they are applied")
