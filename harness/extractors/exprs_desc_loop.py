"""The outer loop of cnvlib/descriptives.py:biweight_location -> Generated/ExprsDescLoop.lean (see harness/breakloop.py
for the reading of a bounded `for` loop with an early `break`).  Props/C19Loop.lean proves that the hand-written
`Desc.bilocLoop` / `Desc.biweightLocationCore` equal these generated definitions, so that an edit to the loop (its exit
test, the carried variable, the range, the default of `initial`) changes the generated term and breaks that obligation."""
from ..breakloop import emit

NAME = "ExprsDescLoop"
IMPORTS = ["CnvVerif.Model.NpVec"]
SPECS = [
    ("cnvlib/descriptives.py", "biweight_location", "src_biweight_location",
     {"vectors": ("a",), "optional": ("initial",), "nat": ("max_iter",)},
     "descriptives.biweight_location (behind its decorator); `biloc_iter` = its nested step function"),
]


def extract(repo, o):
    emit(repo, o, SPECS)
