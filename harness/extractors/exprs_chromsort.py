"""String functions of skgenome -> Generated/ExprsChromsort.lean (whole bodies, re-read on every run).

  skgenome/chromsort.py  sorter_chrom(label)  -> src_sorter_chrom : String -> Nat x String
  skgenome/rangelabel.py to_label(row)        -> src_to_label : String -> Int -> Int -> String

Props/C08Src.lean proves that the hand-written model functions (`Basic.sorterChrom`, `Fmt.toLabel`) EQUAL these
generated ones for all arguments, so an edit to the decision chain or to the f-string in /repo changes the generated
term and breaks that proof obligation; the driver also evaluates the generated functions against the real ones.

Reading of the Python subset (trusted; the primitives are `lean/CnvVerif/Model/PyStr.lean`)
* a function is a sequence of assignments to locals, `if/elif/else` statements whose branches assign the same
  locals (or a guard clause `if c: ...; return x` without else: what follows is the else branch), and a final
  `return <name or expression>`; it is read as nested `let` / `if then else` expressions; a
  local that is re-bound gets a fresh Lean name (`nums`, `nums_1`), so Python's re-binding is plain shadowing;
* types: parameters as declared by `SPECS`; string literals `String`; non-negative int literals `Nat` (or `Int` when
  the other operand is an `Int`); tuples become Lean pairs;
* `s[k:]` = pySliceFrom, `s.lower()` = pyLower, `s.startswith(p)` = pyStartsWith,
  `"".join(takewhile(str.isdigit, s))` = pyLeadingDigits, `len(s)` = pyLen, `int(s)` = pyInt (s a digit run),
  `x in (a, b)` = `x == a || x == b`, `a == b` on strings / ints = `==`, `not e` = `!`, `a or b` / `a and b` on
  booleans = `||` / `&&`, truth value of a string = pyTruthy (non-empty), `a if c else b` and `if c: … else: …` = `bif c then a else b` (`cond` on a Lean `Bool`),
  `+` on ints; an f-string is the concatenation of its pieces, `{e}` of an int being its decimal (`toString`);
  attribute access on the row parameter of `to_label` (`row.start`) reads the parameter of that name.
Anything else raises `Untranslatable`: the generated file then carries a comment instead of the definition and the
theorems about that function stop checking (never silence).
"""
from __future__ import annotations

import ast
import os

from ..exprtrans import Untranslatable
from ..translate import parse, find_func, lstr

NAME = "ExprsChromsort"
IMPORTS = ["CnvVerif.Model.PyStr"]


class StrFn:
    def __init__(self, fn, params, row_param=None):
        self.fn = fn
        self.params = params            # [(python name, lean name, type)]
        self.row_param = row_param      # name of a record parameter whose attributes are the real parameters
        self.counter = {}

    # -- expressions: return (lean text, type) ---------------------------------------------------
    def lit_int(self, v, want):
        if v < 0:
            raise Untranslatable("negative literal")
        return (f"({v} : Int)", "int") if want == "int" else (f"({v} : Nat)", "nat")

    def expr(self, e, env, want=None):
        if isinstance(e, ast.Constant):
            if isinstance(e.value, str):
                return lstr(e.value), "str"
            if isinstance(e.value, bool):
                return ("true" if e.value else "false"), "bool"
            if isinstance(e.value, int):
                return self.lit_int(e.value, want)
            raise Untranslatable(f"constant {e.value!r}")
        if isinstance(e, ast.Name):
            if e.id in env:
                return env[e.id]
            raise Untranslatable(f"unbound name {e.id}")
        if isinstance(e, ast.Attribute) and isinstance(e.value, ast.Name) and e.value.id == self.row_param:
            if e.attr in env:
                return env[e.attr]
            raise Untranslatable(f"unknown field {e.attr}")
        if isinstance(e, ast.Tuple):
            parts = [self.expr(x, env) for x in e.elts]
            return "(" + ", ".join(p[0] for p in parts) + ")", "tuple"
        if isinstance(e, ast.IfExp):
            c = self.cond(e.test, env)
            a, ta = self.expr(e.body, env, want)
            b, tb = self.expr(e.orelse, env, ta if ta in ("nat", "int") else want)
            if ta != tb:
                a, ta = self.expr(e.body, env, tb)
            if ta != tb:
                raise Untranslatable("branches of different types: " + ast.unparse(e))
            return f"(bif {c} then {a} else {b})", ta
        if isinstance(e, ast.Subscript) and isinstance(e.slice, ast.Slice) and e.slice.upper is None and e.slice.step is None \
                and e.slice.lower is not None:
            s, ts = self.expr(e.value, env)
            k, tk = self.expr(e.slice.lower, env, "nat")
            if ts != "str" or tk != "nat":
                raise Untranslatable("slice " + ast.unparse(e))
            return f"(CnvVerif.PyStr.pySliceFrom {s} {k})", "str"
        if isinstance(e, ast.Call):
            f = e.func
            if isinstance(f, ast.Name) and f.id == "len" and len(e.args) == 1:
                s, ts = self.expr(e.args[0], env)
                if ts != "str":
                    raise Untranslatable("len of a non-string")
                return f"(CnvVerif.PyStr.pyLen {s})", "nat"
            if isinstance(f, ast.Name) and f.id == "int" and len(e.args) == 1:
                s, ts = self.expr(e.args[0], env)
                if ts != "str":
                    raise Untranslatable("int of a non-string")
                return f"(CnvVerif.PyStr.pyInt {s})", "nat"
            if isinstance(f, ast.Attribute) and f.attr == "lower" and not e.args:
                s, ts = self.expr(f.value, env)
                if ts == "str":
                    return f"(CnvVerif.PyStr.pyLower {s})", "str"
            if isinstance(f, ast.Attribute) and f.attr == "startswith" and len(e.args) == 1:
                s, ts = self.expr(f.value, env)
                p, tp = self.expr(e.args[0], env)
                if ts == "str" and tp == "str":
                    return f"(CnvVerif.PyStr.pyStartsWith {s} {p})", "bool"
            if (isinstance(f, ast.Attribute) and f.attr == "join" and isinstance(f.value, ast.Constant) and f.value.value == ""
                    and len(e.args) == 1 and isinstance(e.args[0], ast.Call)
                    and ast.unparse(e.args[0].func) in ("takewhile", "itertools.takewhile") and len(e.args[0].args) == 2
                    and ast.unparse(e.args[0].args[0]) == "str.isdigit"):
                s, ts = self.expr(e.args[0].args[1], env)
                if ts == "str":
                    return f"(CnvVerif.PyStr.pyLeadingDigits {s})", "str"
            raise Untranslatable("call " + ast.unparse(e))
        if isinstance(e, ast.BinOp) and isinstance(e.op, ast.Add):
            a, ta = self.expr(e.left, env, want)
            b, tb = self.expr(e.right, env, ta if ta in ("nat", "int") else want)
            if ta != tb and tb in ("nat", "int"):
                a, ta = self.expr(e.left, env, tb)
            if ta == tb and ta in ("nat", "int"):
                return f"({a} + {b})", ta
            raise Untranslatable("addition " + ast.unparse(e))
        if isinstance(e, ast.JoinedStr):
            parts = []
            for v in e.values:
                if isinstance(v, ast.Constant):
                    parts.append(lstr(v.value))
                elif isinstance(v, ast.FormattedValue) and v.conversion == -1 and v.format_spec is None:
                    x, tx = self.expr(v.value, env, "int")
                    parts.append(x if tx == "str" else f"toString {x}")
                else:
                    raise Untranslatable("f-string piece " + ast.unparse(v))
            return "(" + " ++ ".join(parts) + ")", "str"
        if isinstance(e, (ast.Compare, ast.BoolOp)) or (isinstance(e, ast.UnaryOp) and isinstance(e.op, ast.Not)):
            return self.cond(e, env), "bool"
        raise Untranslatable(ast.unparse(e))

    def cond(self, e, env):
        """a Python expression in boolean position -> Lean Bool term"""
        if isinstance(e, ast.BoolOp):
            op = " || " if isinstance(e.op, ast.Or) else " && "
            return "(" + op.join(self.cond(v, env) for v in e.values) + ")"
        if isinstance(e, ast.UnaryOp) and isinstance(e.op, ast.Not):
            return f"(!{self.cond(e.operand, env)})"
        if isinstance(e, ast.Compare) and len(e.ops) == 1:
            op, rhs = e.ops[0], e.comparators[0]
            if isinstance(op, (ast.In, ast.NotIn)) and isinstance(rhs, (ast.Tuple, ast.List)) and rhs.elts:
                a, ta = self.expr(e.left, env)
                alts = []
                for x in rhs.elts:
                    b, tb = self.expr(x, env, ta)
                    if ta != tb:
                        raise Untranslatable("membership across types")
                    alts.append(f"{a} == {b}")
                t = "(" + " || ".join(alts) + ")"
                return t if isinstance(op, ast.In) else f"(!{t})"
            if isinstance(op, (ast.Eq, ast.NotEq)):
                a, ta = self.expr(e.left, env)
                b, tb = self.expr(rhs, env, ta if ta in ("nat", "int") else None)
                if ta != tb and tb in ("nat", "int"):
                    a, ta = self.expr(e.left, env, tb)
                if ta != tb:
                    raise Untranslatable("comparison across types")
                return f"({a} == {b})" if isinstance(op, ast.Eq) else f"({a} != {b})"
            raise Untranslatable("comparison " + ast.unparse(e))
        t, ty = self.expr(e, env)
        if ty == "bool":
            return t
        if ty == "str":
            return f"(CnvVerif.PyStr.pyTruthy {t})"
        if ty in ("nat", "int"):
            return f"({t} != 0)"
        raise Untranslatable("truth value of " + ast.unparse(e))

    # -- statements ------------------------------------------------------------------------------
    def fresh(self, name):
        n = self.counter.get(name, 0)
        self.counter[name] = n + 1
        return name if n == 0 else f"{name}_{n}"

    def assigned(self, stmts):
        out = []
        for s in stmts:
            if isinstance(s, ast.Assign) and len(s.targets) == 1 and isinstance(s.targets[0], ast.Name):
                if s.targets[0].id not in out:
                    out.append(s.targets[0].id)
            elif isinstance(s, ast.If):
                for n in self.assigned(s.body) + self.assigned(s.orelse):
                    if n not in out:
                        out.append(n)
        return out

    def block(self, stmts, env, result):
        """translate statements followed by the expression `result(env)`; returns lean text"""
        if not stmts:
            return result(env)
        s, rest = stmts[0], stmts[1:]
        if isinstance(s, ast.Expr) and isinstance(s.value, ast.Constant) and isinstance(s.value.value, str):
            return self.block(rest, env, result)   # docstring
        if isinstance(s, ast.Assign) and len(s.targets) == 1 and isinstance(s.targets[0], ast.Name):
            v, tv = self.expr(s.value, env)
            name = self.fresh(s.targets[0].id)
            env2 = dict(env)
            env2[s.targets[0].id] = (name, tv)
            return f"let {name} := {v}\n  " + self.block(rest, env2, result)
        if isinstance(s, ast.Return) and s.value is not None and not rest:
            return self.expr(s.value, env)[0]
        if isinstance(s, ast.If):
            # the branches assign locals; what follows reads them: the continuation is duplicated into both branches
            c = self.cond(s.test, env)
            if not s.orelse:
                # guard clause: `if c: ...; return x` -- what follows is the else branch
                if not (s.body and isinstance(s.body[-1], ast.Return)):
                    raise Untranslatable("if without else")
                a = self.block(list(s.body), env, result)
                b = self.block(rest, env, result)
                return f"(bif {c} then\n  {a}\n  else\n  {b})"
            a = self.block(list(s.body) + rest, env, result)
            b = self.block(list(s.orelse) + rest, env, result)
            return f"(bif {c} then\n  {a}\n  else\n  {b})"
        raise Untranslatable("statement " + ast.unparse(s)[:80])

    def translate(self, lean, rettype, comment):
        env = {py: (ln, ty) for py, ln, ty in self.params}
        body = self.block(list(self.fn.body), env, lambda env: (_ for _ in ()).throw(Untranslatable("no return")))
        sig = " ".join(f"({ln} : {'String' if ty == 'str' else 'Int' if ty == 'int' else 'Nat'})" for _, ln, ty in self.params)
        return f"/-- {comment} -/\ndef {lean} {sig} : {rettype} :=\n  {body}"


SPECS = [
    ("skgenome/chromsort.py", "sorter_chrom", "src_sorter_chrom", [("label", "label", "str")], None, "Nat × String",
     "chromsort.sorter_chrom, whole body"),
    ("skgenome/rangelabel.py", "to_label", "src_to_label",
     [("chromosome", "chromosome", "str"), ("start", "start", "int"), ("end", "end_", "int")], "row", "String",
     "rangelabel.to_label (the fields of the row are the parameters)"),
]


def extract(repo, o):
    for path, fname, lean, params, rowp, rettype, comment in SPECS:
        try:
            tree, _src = parse(os.path.join(repo, path))
            fn = find_func(tree, fname)
            text = StrFn(fn, params, rowp).translate(lean, rettype, comment)
        except (Untranslatable, KeyError, OSError, SyntaxError) as e:
            o.lines.append(f"-- NOT TRANSLATED: {path}:{fname}: {type(e).__name__}: {str(e)[:200]}".replace("\n", " "))
            o.info[lean] = {"error": str(e)[:200]}
            continue
        o.lines.append(text)
        o.info[lean] = {"params": [p[1] for p in params]}
