"""Constants of cnvlib/params.py -> Generated/Consts.lean"""
import os
from ..translate import module_consts, lstr

NAME = "Consts"


def extract(repo, o):
    env, text = module_consts(os.path.join(repo, "cnvlib/params.py"))
    for k in ("MIN_REF_COVERAGE", "MAX_REF_SPREAD", "NULL_LOG2_COVERAGE", "GC_MIN_FRACTION", "GC_MAX_FRACTION"):
        o.flt(k, env[k], text[k], f"cnvlib/params.py {k}")
    o.defn("INSERT_SIZE", "Int", str(int(env["INSERT_SIZE"])), "cnvlib/params.py INSERT_SIZE")
    o.defn("IGNORE_GENE_NAMES", "List String", "[" + ", ".join(lstr(s) for s in env["IGNORE_GENE_NAMES"]) + "]")
    o.defn("ANTITARGET_NAME", "String", lstr(env["ANTITARGET_NAME"]))
    o.defn("ANTITARGET_ALIASES", "List String", "[" + ", ".join(lstr(s) for s in env["ANTITARGET_ALIASES"]) + "]")
    par = env["PSEUDO_AUTSOMAL_REGIONS"]
    rows = []
    for g in sorted(par):
        for k in sorted(par[g]):
            rows.append(f"({lstr(g)}, {lstr(k)}, ({par[g][k][0]} : Int), ({par[g][k][1]} : Int))")
    o.defn("PAR_TABLE", "List (String × String × Int × Int)", "[" + ",\n  ".join(rows) + "]",
           "cnvlib/params.py PSEUDO_AUTSOMAL_REGIONS as (genome, region, start, end)")
