"""cnvlib/cnary.py by_gene, drop_low_coverage -> Generated/ExprsByGene.lean (typed reading, see harness/exprtrans.py).

Props/C16SrcByGene.lean proves that the hand-written model (`Genes.goPos`, `fullIgnore`, `keptLow`) IS these generated
definitions: the index arithmetic of the loop of `by_gene` (start / end of a gene's slice, when an intergenic stretch is
yielded and which positions it spans, the telomere) and the low-coverage mask are re-read from the source on every run."""
import ast
import os

from ..exprtrans import GFn, Untranslatable, emit_gtyped
from ..translate import find_func, parse

NAME = "ExprsByGene"
IMPORTS = ["CnvVerif.Generated.Consts"]
PATH = "cnvlib/cnary.py"
YIELD = "List (String × Nat × Option Nat)"


def _body(fn):
    return [s for s in fn.body if not (isinstance(s, ast.Expr) and isinstance(s.value, ast.Constant))]


class _HasColumns(ast.NodeTransformer):
    """`"depth" in self` -> True (see the reading rules)"""
    def visit_Compare(self, node):
        if (len(node.ops) == 1 and isinstance(node.ops[0], ast.In) and isinstance(node.left, ast.Constant)
                and node.left.value in ("depth", "weight") and isinstance(node.comparators[0], ast.Name)):
            return ast.copy_location(ast.Constant(value=True), node)
        return self.generic_visit(node)


def rebound_parameter(fn):
    """the first statement `p = <expr>` that re-binds a parameter p of `fn` (`ignore = tuple(ignore) + ALIASES`)"""
    params = {a.arg for a in fn.args.args}
    for s in _body(fn):
        if isinstance(s, ast.Assign) and len(s.targets) == 1 and isinstance(s.targets[0], ast.Name) \
                and s.targets[0].id in params:
            return s
    raise Untranslatable("no re-bound parameter in " + fn.name)


def sig(fn):
    """the function's own parameter names (without self)"""
    return [a.arg for a in fn.args.args if a.arg != "self"]


def ignore_list(fn):
    s = rebound_parameter(fn)
    t = GFn(hints={s.targets[0].id: "List String"}, elem="String", first=sig(fn))
    body, ty = t.expr(s.value, {})
    if ty != "List String":
        raise Untranslatable(f"the ignore list has type {ty}")
    return t, "List String", body


def _stores(stmts):
    return {n.id for s in stmts for n in ast.walk(s) if isinstance(n, ast.Name) and isinstance(n.ctx, ast.Store)}


def by_gene_parts(fn):
    """(inner loop, [(state variable, its initial value)], statements after the inner loop) of the per-chromosome loop"""
    outer = next(s for s in _body(fn) if isinstance(s, ast.For))
    inner = next(s for s in outer.body if isinstance(s, ast.For))
    k = outer.body.index(inner)
    rebinds = _stores(inner.body)
    state = [(s.targets[0].id, s.value) for s in outer.body[:k]
             if isinstance(s, ast.Assign) and len(s.targets) == 1 and isinstance(s.targets[0], ast.Name)
             and s.targets[0].id in rebinds]
    if len(state) != 1:
        raise Untranslatable(f"expected one loop-carried variable in by_gene, found {[v for v, _ in state]}")
    return inner, state, outer.body[k + 1:]


def extract(repo, o):
    tree, _src = parse(os.path.join(repo, PATH))
    fn = find_func(tree, "by_gene", cls="CopyNumArray")

    emit_gtyped(o, "src_by_gene_ignore", lambda: ignore_list(fn),
               "cnary.by_gene: the names that never form a gene (`ignore = tuple(ignore) + params.ANTITARGET_ALIASES`)")

    def init():
        _inner, state, _after = by_gene_parts(fn)
        t = GFn(num="Nat")
        body, _ty = t.expr(state[0][1], {})
        return t, "Nat", body
    emit_gtyped(o, "src_by_gene_init", init, "cnary.by_gene: `prev_idx` at the start of a chromosome")

    def step():
        inner, state, _after = by_gene_parts(fn)
        if not (isinstance(inner.target, ast.Tuple) and len(inner.target.elts) == 2
                and all(isinstance(x, ast.Name) for x in inner.target.elts)):
            raise Untranslatable("loop target of by_gene: " + ast.unparse(inner.target))
        g, idx = (x.id for x in inner.target.elts)
        t = GFn(hints={g: "String", idx: "List Nat"}, num="Nat", elem="Nat", first=sig(fn) + [g, idx])
        body = t.step(list(inner.body), {}, [], [state[0][0]])
        return t, YIELD + " × Nat", body
    emit_gtyped(o, "src_by_gene_step", step,
               "cnary.by_gene: ONE ITERATION of the loop over the gene map of a chromosome: the (label, positions) pairs it "
               "yields and the new `prev_idx`")

    def tail():
        _inner, state, after = by_gene_parts(fn)
        t = GFn(hints={state[0][0]: "Nat"}, num="Nat", elem="Nat", first=sig(fn))
        return t, YIELD, t.step(list(after), {}, [], [])
    emit_gtyped(o, "src_by_gene_tail", tail, "cnary.by_gene: after the loop (the telomere)")

    def keeps():
        f = find_func(tree, "drop_low_coverage", cls="CopyNumArray")
        t = GFn(num="Rat")
        body = t.step([_HasColumns().visit(s) for s in _body(f)], {}, [], [])
        return t, "Bool", body
    emit_gtyped(o, "src_drop_low_coverage_keeps", keeps,
               "cnary.drop_low_coverage (what `skip_low` applies): the row with this log2 and depth is kept")
