"""cnvlib/call.py, cnvlib/segfilters.py defaults and cut-offs -> Generated/CallConsts.lean"""
import ast
import os
from ..translate import seg, parse, find_func, func_defaults, rat, dec

NAME = "CallConsts"


def _src_of_default(fn, src, name):
    args = fn.args.args
    d = fn.args.defaults
    for a, v in zip(args[len(args) - len(d):], d):
        if a.arg == name:
            return v
    raise KeyError(name)


def extract(repo, o):
    tree, src = parse(os.path.join(repo, "cnvlib/call.py"))
    fn = find_func(tree, "do_call")
    thr = _src_of_default(fn, src, "thresholds")
    vals = [ast.literal_eval(e) for e in thr.elts]
    texts = [seg(src, e) for e in thr.elts]
    o.defn("DEFAULT_THRESHOLDS", "List Rat", "[" + ", ".join(rat(v) for v in vals) + "]",
           "do_call default thresholds (exact doubles)")
    o.defn("DEFAULT_THRESHOLDS_dec", "List Rat", "[" + ", ".join(dec(t) for t in texts) + "]",
           "do_call default thresholds as written")
    d = func_defaults(fn)
    o.defn("DEFAULT_PLOIDY", "Nat", str(int(d["ploidy"])))
    o.defn("DEFAULT_METHOD", "String", '"%s"' % d["method"])
    fn2 = find_func(tree, "log2_ratios")
    mv = _src_of_default(fn2, src, "min_abs_val")
    o.flt("MIN_ABS_VAL", ast.literal_eval(mv), seg(src, mv), "log2_ratios min_abs_val")
    # sex-chromosome adjustments of log2_ratios: `+= 1.0` sites
    incs = [n for n in ast.walk(fn2) if isinstance(n, ast.AugAssign) and isinstance(n.op, ast.Add)]
    o.defn("LOG2_RATIOS_INCREMENTS", "List Rat", "[" + ", ".join(rat(ast.literal_eval(n.value)) for n in incs) + "]",
           "the `+= 1.0` adjustments on X (haploid reference) and Y in log2_ratios")
    tree, src = parse(os.path.join(repo, "cnvlib/segfilters.py"))
    fs = find_func(tree, "sem")
    z = _src_of_default(fs, src, "zscore")
    o.flt("SEM_ZSCORE", ast.literal_eval(z), seg(src, z), "segfilters.sem zscore")
    fa = find_func(tree, "ampdel")
    ge = sorted({ast.literal_eval(c.comparators[0]) for c in ast.walk(fa)
                 if isinstance(c, ast.Compare) and isinstance(c.ops[0], ast.GtE)})
    eq = sorted({ast.literal_eval(c.comparators[0]) for c in ast.walk(fa)
                 if isinstance(c, ast.Compare) and isinstance(c.ops[0], ast.Eq)})
    o.defn("AMPDEL_AMP_MIN", "List Int", "[" + ", ".join(str(int(v)) for v in ge) + "]",
           "every constant compared with `cn >=` in ampdel")
    o.defn("AMPDEL_DEL_EQ", "List Int", "[" + ", ".join(str(int(v)) for v in eq) + "]",
           "every constant compared with `cn ==` in ampdel")
