"""skgenome/tabio/__init__.py: the sniff patterns `format_patterns['text']` and `['bed']` -> Generated/RegexSniff.lean
(regex ASTs of `Fmt.C08L.Re`, re-read on every run; round 5c).

  ('text', re.compile(r'\\w+:\\d*-\\d*.*'))                          ->  src_sniff_text : C08L.Re
  ('bed', re.compile('\\t'.join((r'\\S+', r'\\d+', r'\\d+'))))        ->  src_sniff_bed  : C08L.Re
  the method `sniff_region_format` applies to them                   ->  src_sniff_text_method / src_sniff_bed_method

`Props/C08Sniff.lean` proves that every line the text writer (`to_label`) / a BED writer emits is matched by the
regenerated pattern under the backtracking semantics of `Model/FormatsExt5Label.lean`.

Reading rule (trusted): as `regex_label.py` (Python's own `re._parser.parse`, node by node), plus
  * ANY (the dot, no DOTALL flag)  -> one [any]   (`any` = every character but '\\n')
  * the pattern argument of `re.compile` is a string literal or `<string literal>.join(<tuple of string literals>)`,
    evaluated as Python evaluates it.
Anything else raises `Untranslatable` (a comment instead of the definition; the theorems stop checking).
"""
from __future__ import annotations

import ast
import os

from ..exprtrans import Untranslatable
from ..translate import parse, find_func, lstr
from . import regex_label as rl

NAME = "RegexSniff"
IMPORTS = ["CnvVerif.Model.FormatsExt5Label"]
KEYS = ("text", "bed")


def _cls(node):
    op, _av = node
    if str(op) == "ANY":
        return "[.any]"
    return rl._cls(node)


def _seq(items):
    items = list(items)
    if not items:
        return ".eps"
    out = _node(items[-1])
    for it in reversed(items[:-1]):
        out = f".seq ({_node(it)}) ({out})"
    return out


def _node(node):
    import re._constants as c
    op, av = node
    name = str(op)
    cls = _cls(node)
    if cls is not None:
        return f".one {cls}"
    if name == "MAX_REPEAT":
        lo, hi, sub = av
        sub = list(sub)
        if (lo, hi) == (0, 1):
            return f".opt ({_seq(sub)})"
        if hi == c.MAXREPEAT and lo in (0, 1) and len(sub) == 1 and _cls(sub[0]) is not None:
            return f".{'star' if lo == 0 else 'plus'} {_cls(sub[0])}"
        raise Untranslatable(f"repeat {lo}..{hi}")
    if name == "SUBPATTERN":
        group, add_flags, del_flags, sub = av
        if group is None or add_flags or del_flags:
            raise Untranslatable("non-capturing / flagged group")
        return f".grp {group} ({_seq(sub)})"
    raise Untranslatable(f"regex node {name}")


def regex_to_lean(pattern: str) -> str:
    import re._parser as p
    tree = p.parse(pattern)
    if tree.state.flags & ~32:
        raise Untranslatable("inline flags")
    return _seq(list(tree))


def _pattern_text(arg):
    """a string literal, or <literal>.join(<tuple/list of literals>)"""
    if isinstance(arg, ast.Constant) and isinstance(arg.value, str):
        return arg.value
    if (isinstance(arg, ast.Call) and isinstance(arg.func, ast.Attribute) and arg.func.attr == "join"
            and isinstance(arg.func.value, ast.Constant) and isinstance(arg.func.value.value, str)
            and len(arg.args) == 1 and not arg.keywords):
        parts = ast.literal_eval(arg.args[0])
        if isinstance(parts, (tuple, list)) and all(isinstance(x, str) for x in parts):
            return arg.func.value.value.join(parts)
    raise Untranslatable("pattern is neither a literal nor <literal>.join(<literals>)")


def _patterns(tree):
    for node in tree.body:
        if isinstance(node, ast.Assign) and getattr(node.targets[0], "id", None) == "format_patterns":
            call = node.value
            if not (isinstance(call, ast.Call) and len(call.args) == 1 and isinstance(call.args[0], (ast.List, ast.Tuple))):
                raise Untranslatable("format_patterns is not OrderedDict([...])")
            out = {}
            for el in call.args[0].elts:
                if not (isinstance(el, ast.Tuple) and len(el.elts) == 2 and isinstance(el.elts[0], ast.Constant)):
                    raise Untranslatable("format_patterns entry")
                key, comp = el.elts[0].value, el.elts[1]
                if key in out:
                    raise Untranslatable(f"duplicate key {key}")
                out[key] = comp
            return out
    raise Untranslatable("format_patterns not found")


def extract(repo, o):
    try:
        tree, _src = parse(os.path.join(repo, "skgenome", "tabio", "__init__.py"))
        pats = _patterns(tree)
        fn = find_func(tree, "sniff_region_format")
        res = []
        for key in KEYS:
            comp = pats.get(key)
            if comp is None:
                raise Untranslatable(f"no pattern {key}")
            if not (isinstance(comp, ast.Call) and isinstance(comp.func, ast.Attribute) and comp.func.attr == "compile"
                    and len(comp.args) == 1 and not comp.keywords):
                raise Untranslatable(f"pattern {key} is not re.compile(<pattern>)")
            pat = _pattern_text(comp.args[0])
            methods = sorted({n.func.attr for n in ast.walk(fn)
                              if isinstance(n, ast.Call) and isinstance(n.func, ast.Attribute)
                              and isinstance(n.func.value, ast.Subscript)
                              and getattr(n.func.value.value, "id", None) == "format_patterns"
                              and isinstance(n.func.value.slice, ast.Constant) and n.func.value.slice.value == key})
            if len(methods) != 1:
                raise Untranslatable(f"sniff_region_format does not apply pattern {key} by exactly one method")
            res.append((key, pat, regex_to_lean(pat), methods[0]))
    except (Untranslatable, KeyError, OSError, SyntaxError, ValueError) as e:
        o.lines.append(f"-- UNTRANSLATABLE sniff patterns: {type(e).__name__}: {e}")
        return
    for key, pat, lean, method in res:
        o.defn(f"src_sniff_{key}", "CnvVerif.Fmt.C08L.Re", lean, f"format_patterns[{key!r}] = {lstr(pat)} as parsed by Python's re")
        o.defn(f"src_sniff_{key}_method", "String", lstr(method), f"how sniff_region_format applies it: format_patterns[{key!r}].<method>(line)")
