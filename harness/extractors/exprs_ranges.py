"""skgenome/intersect.py, skgenome/combiners.py -> Generated/ExprsRanges.lean (second reading, harness/exprtrans_c07.py: one table, one query).
Props/C07Src.lean proves that the hand-written model of the two slicing paths, of the path switch, of the trim
clipping and of the summary choice of `into_ranges` EQUALS these generated terms, so an edit to a searchsorted side,
a mask expression, the `if start_val:` truthiness, the switch condition, a clip bound or the summary cascade in /repo
changes the generated term and breaks that proof obligation."""
from ..exprtrans_c07 import emit_table   # C07 reader variant (see the note at the top of that file)

NAME = "ExprsRanges"
IMPORTS = ["CnvVerif.Basic"]
F = "skgenome/intersect.py"
SPECS = [
    (F, "_irange_nested", "src_irange_nested_mask", "per_query", {"what": "mask"},
     "intersect._irange_nested: the mask entry of the table row `row` at position `i`, for one query"),
    (F, "_irange_simple", "src_irange_simple_slice", "per_query", {"what": "slice"},
     "intersect._irange_simple: `slice(start_idx, end_idx)` for one query"),
    (F, "idx_ranges", "src_idx_ranges_path", "decision",
     {"params": "(t : Table) (qs qe : Option Int)",
      "leaves": {"yield (slice(None), None, None)": 0, "irange_func = _irange_nested": 1,
                 "irange_func = _irange_simple": 2}},
     "intersect.idx_ranges: 0 = the whole table, 1 = the mask path (_irange_nested), 2 = binary search (_irange_simple)"),
    (F, "iter_ranges", "src_iter_ranges_clip", "clip", {},
     "intersect.iter_ranges: start and end of one selected row after the trim step"),
    (F, "into_ranges", "src_into_ranges_summary", "decision",
     {"params": "(func_is_none func_is_callable elem_is_str elem_is_float : Bool)",
      "conds": {"summary_func is None": "func_is_none", "callable(summary_func)": "func_is_callable",
                "isinstance(elem, (str, np.string_))": "elem_is_str", "isinstance(elem, str)": "elem_is_str",
                "isinstance(elem, (float, np.float64))": "elem_is_float", "isinstance(elem, float)": "elem_is_float"},
      "leaves": {"summary_func = join_strings": 0, "summary_func = np.nanmedian": 1, "summary_func = first_of": 2,
                 "summary_func = make_const(summary_func)": 3, None: 4}},
     "intersect.into_ranges (source and dest non-empty): 0 = join_strings, 1 = np.nanmedian, 2 = first_of, 3 = make_const(value), 4 = the callable given"),
    (F, "into_ranges.series2value", "src_series2value", "decision",
     {"params": "(ser_len : Nat)",
      "conds": {"len(ser) == 0": "(ser_len == 0)", "len(ser) == 1": "(ser_len == 1)", "not len(ser)": "(ser_len == 0)"},
      "leaves": {"return default": 0, "return ser.iat[0]": 1, "return summary_func(ser)": 2}},
     "intersect.into_ranges.series2value: 0 = the default, 1 = the single value, 2 = the summary of all values"),
]

F2 = "skgenome/combiners.py"
COMB_SPECS = [
    (F2, "first_of", "src_first_of", "decision",
     {"params": "(is_series : Bool)", "conds": {"isinstance(elems, pd.Series)": "is_series"},
      "leaves": {"return elems.iat[0]": 0, "return elems.iloc[0]": 0, "return elems[0]": 2}},
     "combiners.first_of: 0 = position 0 of a Series (.iat[0]), 2 = index 0 of a plain sequence (elems[0]; on a Series that would be a LABEL lookup)"),
    (F2, "last_of", "src_last_of", "decision",
     {"params": "(is_series : Bool)", "conds": {"isinstance(elems, pd.Series)": "is_series"},
      "leaves": {"return elems.iat[-1]": 1, "return elems.iloc[-1]": 1, "return elems[-1]": 3}},
     "combiners.last_of: 1 = the last position of a Series (.iat[-1]), 3 = index -1 of a plain sequence"),
    (F2, "merge_strands", "src_merge_strands", "decision",
     {"params": "(n_distinct : Nat)",
      "conds": {"len(strands) > 1": "decide (n_distinct > 1)", "len(strands) >= 2": "decide (n_distinct ≥ 2)",
                "len(strands) == 1": "(n_distinct == 1)", "len(strands) <= 1": "decide (n_distinct ≤ 1)"},
      "leaves": {"return '.'": 0, "return elems[0]": 1}},
     "combiners.merge_strands (strands = set(elems)): 0 = '.', 1 = the first element"),
    (F2, "make_const.const", "src_make_const", "decision",
     {"params": "", "leaves": {"return val": 0}},
     "combiners.make_const: the inner function returns 0 = the value given to make_const"),
    (F2, "join_strings", "src_join_strings", "decision",
     {"params": "",
      "leaves": {"return sep.join(pd.unique(pd.Series(elems)))": 0, "return sep.join(pd.Series(elems).unique())": 0}},
     "combiners.join_strings: 0 = sep.join of the distinct elements in order of first appearance (pd.unique)"),
]


def extract(repo, o):
    emit_table(repo, o, SPECS + COMB_SPECS)
