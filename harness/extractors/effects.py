"""Effects of cnvlib / skgenome read off the source (Python `ast` only) -> Generated/EffectsConsts.lean  (C10)

* RNG_TABLE      for every function of the package that reaches the global random generators (np.random.*,
                 stdlib random.*), following intra-package calls by name: its control-flow skeleton restricted to
                 RNG operations (`seed c | seed ? | draw kind`, sequence / branch / loop, callees inlined).
* EXECUTOR_CALLS which Executor method every `parallel.pick_pool` section uses (`map` = ordered gather),
                 UNORDERED_GATHER_SITES: any reference to as_completed / imap_unordered / wait.
* COLLECTION_PARAM_MUTATIONS  in-place mutation (list/dict/set method, augmented assignment) of an optional
                 collection-valued parameter (default None, a tuple/list/dict literal or a `params.` constant) that was
                 not rebound to a fresh object first.
* GUARDED_WRITERS every `core.ensure_path(x)` call site with the path expression of the `tabio.write` that follows it.
"""
import ast
import os

from ..translate import lstr

NAME = "EffectsConsts"
IMPORTS = ["CnvVerif.Model.Effects"]
PACKAGES = ("cnvlib", "skgenome")
SEEDERS = {"seed"}
RNG_CTORS = {"default_rng", "RandomState", "Generator", "SeedSequence", "Random", "SystemRandom"}
NOT_DRAWS = {"get_state", "set_state", "getstate", "setstate"}
MUTATORS = {"remove", "append", "extend", "insert", "pop", "sort", "clear", "update", "reverse", "setdefault",
            "popitem", "add", "discard"}
UNORDERED = {"as_completed", "imap_unordered", "wait"}
POOLS = {"pick_pool", "ProcessPoolExecutor", "ThreadPoolExecutor", "Pool"}


# ---------------------------------------------------------------------------------------------
# skeleton trees (tuples): ("nop",) ("seed", c|None) ("draw", kind) ("seq", a, b) ("alt", a, b) ("star", a)

NOP = ("nop",)


def seq(*xs):
    out = NOP
    for x in reversed([x for x in xs if x != NOP]):
        out = x if out == NOP else ("seq", x, out)
    return out


def alt(a, b):
    if a == b:
        return a
    return ("alt", a, b)


def alts(xs):
    xs = list(xs)
    if not xs:
        return NOP
    out = xs[-1]
    for x in reversed(xs[:-1]):
        out = alt(x, out)
    return out


def star(a):
    return NOP if a == NOP else ("star", a)


def defname(key):
    return "SK_" + "".join(c if c.isalnum() else "_" for c in key)


def to_lean(t):
    k = t[0]
    if k == "ref":
        return defname(t[1])
    if k == "nop":
        return "Sk.nop"
    if k == "seed":
        return "Sk.op (ROp.seed %s)" % ("none" if t[1] is None else "(some %d)" % t[1])
    if k == "draw":
        return "Sk.op (ROp.draw %s)" % lstr(t[1])
    if k == "star":
        return "Sk.star (%s)" % to_lean(t[1])
    return "Sk.%s (%s) (%s)" % (k, to_lean(t[1]), to_lean(t[2]))


def has_ops(t):
    return t[0] in ("seed", "draw", "ref") or any(has_ops(c) for c in t[1:] if isinstance(c, tuple))


# ---------------------------------------------------------------------------------------------


class Module:
    def __init__(self, repo, rel):
        self.rel = rel
        self.name = rel[:-3].replace("/", ".")
        if self.name.endswith(".__init__"):
            self.name = self.name[: -len(".__init__")]
        from ..translate import parse as _parse
        self.tree = _parse(os.path.join(repo, rel))[0]   # module-level constants and params.X inlined
        # aliases of numpy / numpy.random / stdlib random in this module
        self.np, self.nprandom, self.pyrandom, self.direct = set(), set(), set(), {}
        for n in ast.walk(self.tree):
            if isinstance(n, ast.Import):
                for a in n.names:
                    if a.name == "numpy":
                        self.np.add(a.asname or "numpy")
                    elif a.name == "numpy.random":
                        (self.nprandom if a.asname else self.np).add(a.asname or "numpy")
                    elif a.name == "random":
                        self.pyrandom.add(a.asname or "random")
            elif isinstance(n, ast.ImportFrom) and n.module:
                for a in n.names:
                    if n.module == "numpy" and a.name == "random":
                        self.nprandom.add(a.asname or "random")
                    elif n.module in ("numpy.random", "random"):
                        self.direct[a.asname or a.name] = a.name  # from numpy.random import randn


def rng_call(mod, call):
    """('seed', c|None) / ('draw', kind) when `call` is a call into a global random generator, else None"""
    f = call.func
    name = None
    if isinstance(f, ast.Attribute):
        v = f.value
        if isinstance(v, ast.Attribute) and v.attr == "random" and isinstance(v.value, ast.Name) and v.value.id in mod.np:
            name = f.attr
        elif isinstance(v, ast.Name) and v.id in (mod.nprandom | mod.pyrandom):
            name = f.attr
    elif isinstance(f, ast.Name) and f.id in mod.direct:
        name = mod.direct[f.id]
    if name is None or name in NOT_DRAWS:
        return None
    const = None
    if call.args and isinstance(call.args[0], ast.Constant) and isinstance(call.args[0].value, int) \
            and not isinstance(call.args[0].value, bool) and call.args[0].value >= 0:
        const = call.args[0].value
    if name in SEEDERS:
        return ("seed", const)
    if name in RNG_CTORS:
        # a private generator: fine when built from a literal seed, otherwise it draws OS entropy
        return NOP if const is not None else seq(("seed", None), ("draw", name))
    return ("draw", name)


class Extractor:
    def __init__(self, repo, rng_call_hook=None):
        # `rng_call_hook` (effects_rng.py): a wider reading of "a call that touches a global random generator"
        self.rng_call = rng_call_hook or rng_call
        self.mods = []
        for pkg in PACKAGES:
            for dp, _dn, fns in sorted(os.walk(os.path.join(repo, pkg))):
                for fn in sorted(fns):
                    if fn.endswith(".py"):
                        self.mods.append(Module(repo, os.path.relpath(os.path.join(dp, fn), repo)))
        self.funcs = {}   # key -> (module, FunctionDef)
        self.byname = {}  # bare name -> [key]
        for m in self.mods:
            self._collect(m, m.tree.body, m.name)
        self.state, self.defs, self.order = {}, {}, []

    def _collect(self, m, body, prefix):
        for n in body:
            if isinstance(n, (ast.FunctionDef, ast.AsyncFunctionDef)):
                key = prefix + "." + n.name
                self.funcs[key] = (m, n)
                self.byname.setdefault(n.name, []).append(key)
            elif isinstance(n, ast.ClassDef):
                self._collect(m, n.body, prefix + "." + n.name)

    # -- which functions reach an RNG op (fixpoint over calls resolved by bare name)
    def reach(self):
        direct = set()
        calls = {}
        for key, (m, fn) in self.funcs.items():
            cs = set()
            for n in ast.walk(fn):
                if isinstance(n, ast.Call):
                    if self.rng_call(m, n) not in (None, NOP):
                        direct.add(key)
                    else:
                        nm = n.func.id if isinstance(n.func, ast.Name) else (n.func.attr if isinstance(n.func, ast.Attribute) else None)
                        if nm in self.byname:
                            cs.add(nm)
            calls[key] = cs
        reach = set(direct)
        changed = True
        while changed:
            changed = False
            names = {k.rsplit(".", 1)[1] for k in reach}
            for key, cs in calls.items():
                if key not in reach and cs & names:
                    reach.add(key)
                    changed = True
        self.reachset = reach
        self.reachnames = {k.rsplit(".", 1)[1] for k in reach}
        return reach

    # -- skeleton of a function; a callee appears as a reference to its own definition
    def skel(self, key, stack=()):
        """("ref", key) once the callee's skeleton is defined (definitions come out in dependency order);
        NOP for a callee without RNG operations and for a recursive call (the outer occurrence stands for it)"""
        st = self.state.get(key)
        if st == "progress":
            return NOP
        if st is None:
            self.state[key] = "progress"
            m, fn = self.funcs[key]
            t = self.block(m, fn.body, (key,))
            self.defs[key] = t
            self.order.append(key)
            self.state[key] = "done"
        return ("ref", key) if has_ops(self.defs[key]) else NOP

    def block(self, m, stmts, stack):
        return seq(*[self.stmt(m, s, stack) for s in stmts])

    def stmt(self, m, s, st):
        E = lambda e: self.expr(m, e, st)  # noqa: E731
        B = lambda b: self.block(m, b, st)  # noqa: E731
        if isinstance(s, (ast.FunctionDef, ast.AsyncFunctionDef)):
            return star(B(s.body))  # a closure: may run any number of times later
        if isinstance(s, ast.ClassDef):
            return NOP
        if isinstance(s, ast.If):
            return seq(E(s.test), alt(B(s.body), B(s.orelse)))
        if isinstance(s, (ast.For, ast.AsyncFor)):
            return seq(E(s.iter), star(B(s.body)), B(s.orelse))
        if isinstance(s, ast.While):
            return seq(E(s.test), star(seq(B(s.body), E(s.test))), B(s.orelse))
        if isinstance(s, (ast.With, ast.AsyncWith)):
            return seq(*[E(i.context_expr) for i in s.items], B(s.body))
        if isinstance(s, ast.Try):
            return seq(B(s.body), alts([NOP] + [B(h.body) for h in s.handlers]), B(s.orelse), B(s.finalbody))
        parts = [E(c) for c in ast.iter_child_nodes(s) if isinstance(c, ast.expr)]
        return seq(*parts)

    def expr(self, m, e, st):
        if e is None:
            return NOP
        E = lambda x: self.expr(m, x, st)  # noqa: E731
        if isinstance(e, ast.Lambda):
            return star(E(e.body))
        if isinstance(e, ast.IfExp):
            return seq(E(e.test), alt(E(e.body), E(e.orelse)))
        if isinstance(e, ast.BoolOp):
            out = NOP
            for v in reversed(e.values[1:]):
                out = alt(seq(E(v), out), NOP)
            return seq(E(e.values[0]), out)
        if isinstance(e, (ast.ListComp, ast.SetComp, ast.GeneratorExp, ast.DictComp)):
            inner = seq(E(e.key), E(e.value)) if isinstance(e, ast.DictComp) else E(e.elt)
            for g in reversed(e.generators):
                inner = seq(E(g.iter), star(seq(*[E(c) for c in g.ifs], inner)))
            return inner
        if isinstance(e, ast.Call):
            args = seq(*([E(a) for a in e.args] + [E(k.value) for k in e.keywords]))
            r = self.rng_call(m, e)
            if r is not None:
                return seq(args, r)
            fexp = E(e.func) if not isinstance(e.func, ast.Name) else NOP
            nm = e.func.id if isinstance(e.func, ast.Name) else (e.func.attr if isinstance(e.func, ast.Attribute) else None)
            callee = NOP
            if nm in self.reachnames:
                callee = alts([self.skel(k, st) for k in self.byname[nm] if k in self.reachset])
            return seq(fexp, args, callee)
        return seq(*[E(c) for c in ast.iter_child_nodes(e) if isinstance(c, ast.expr)])


# ---------------------------------------------------------------------------------------------


def _executor_calls(ex):
    calls, unordered = [], []
    for m in ex.mods:
        for n in ast.walk(m.tree):
            if isinstance(n, (ast.Name, ast.Attribute)):
                nm = n.id if isinstance(n, ast.Name) else n.attr
                if nm in UNORDERED and not (isinstance(n, ast.Attribute) and isinstance(n.value, ast.Name) and n.value.id == "os"):
                    unordered.append((m.rel, nm))
    for key, (m, fn) in ex.funcs.items():
        for w in ast.walk(fn):
            if isinstance(w, ast.With):
                for it in w.items:
                    c = it.context_expr
                    if isinstance(c, ast.Call) and getattr(c.func, "attr", getattr(c.func, "id", None)) in POOLS \
                            and isinstance(it.optional_vars, ast.Name):
                        pool = it.optional_vars.id
                        for n in ast.walk(w):
                            if isinstance(n, ast.Call) and isinstance(n.func, ast.Attribute) and isinstance(n.func.value, ast.Name) \
                                    and n.func.value.id == pool:
                                calls.append((m.rel, fn.name, n.func.attr))
    return sorted(set(calls)), sorted(set(unordered))


def _is_collection_default(d):
    if d is None:
        return False
    if isinstance(d, ast.Constant) and d.value is None:
        return True
    if isinstance(d, (ast.Tuple, ast.List, ast.Dict, ast.Set)):
        return True
    return isinstance(d, ast.Attribute) and isinstance(d.value, ast.Name) and d.value.id == "params"


def _param_mutations(ex):
    out = []
    for key, (m, fn) in ex.funcs.items():
        a = fn.args
        pos = a.posonlyargs + a.args
        defaults = dict(zip([p.arg for p in pos[len(pos) - len(a.defaults):]], a.defaults))
        defaults.update({p.arg: d for p, d in zip(a.kwonlyargs, a.kw_defaults)})
        params = {p for p, d in defaults.items() if _is_collection_default(d)}
        if not params:
            continue
        evs = []
        for n in ast.walk(fn):
            if isinstance(n, ast.Assign):
                for t in n.targets:
                    for tt in (t.elts if isinstance(t, ast.Tuple) else [t]):
                        if isinstance(tt, ast.Name) and tt.id in params:
                            evs.append((n.lineno, n.col_offset, "rebind", tt.id))
                        if isinstance(tt, ast.Subscript) and isinstance(tt.value, ast.Name) and tt.value.id in params:
                            evs.append((n.lineno, n.col_offset, "setitem", tt.value.id))
            elif isinstance(n, ast.AugAssign):
                t = n.target
                if isinstance(t, ast.Name) and t.id in params:
                    evs.append((n.lineno, n.col_offset, "augassign", t.id))
                if isinstance(t, ast.Subscript) and isinstance(t.value, ast.Name) and t.value.id in params:
                    evs.append((n.lineno, n.col_offset, "aug-setitem", t.value.id))
            elif isinstance(n, ast.Delete):
                for t in n.targets:
                    if isinstance(t, ast.Subscript) and isinstance(t.value, ast.Name) and t.value.id in params:
                        evs.append((n.lineno, n.col_offset, "del", t.value.id))
            elif isinstance(n, ast.Call) and isinstance(n.func, ast.Attribute) and n.func.attr in MUTATORS \
                    and isinstance(n.func.value, ast.Name) and n.func.value.id in params:
                evs.append((n.lineno, n.col_offset, "." + n.func.attr, n.func.value.id))
        rebound = set()
        for _ln, _col, kind, name in sorted(evs):
            if kind == "rebind":
                rebound.add(name)
            elif name not in rebound:
                out.append((m.rel, fn.name, name, kind))
    return sorted(set(out))


def _guarded_writers(ex):
    out = []
    for key, (m, fn) in ex.funcs.items():
        guards = [n for n in ast.walk(fn) if isinstance(n, ast.Call) and getattr(n.func, "attr", getattr(n.func, "id", None)) == "ensure_path"
                  and n.args]
        for g in guards:
            later = [n for n in ast.walk(fn) if isinstance(n, ast.Call) and getattr(n.func, "attr", None) == "write"
                     and isinstance(n.func.value, ast.Name) and n.func.value.id == "tabio" and len(n.args) >= 2
                     and (n.lineno, n.col_offset) > (g.lineno, g.col_offset)]
            later.sort(key=lambda n: (n.lineno, n.col_offset))
            out.append((m.rel, fn.name, ast.unparse(g.args[0]), ast.unparse(later[0].args[1]) if later else ""))
    return sorted(set(out))


def extract(repo, o):
    ex = Extractor(repo)
    reach = ex.reach()
    for key in sorted(reach):
        ex.skel(key)
    o.lines.append("open CnvVerif.Effects")
    rows = []
    for key in ex.order:  # dependency order: callees first
        t = ex.defs[key]
        if not has_ops(t):
            continue
        o.defn(defname(key), "Sk", to_lean(t), "RNG skeleton of " + key)
    for key in sorted(k for k in ex.order if has_ops(ex.defs[k])):
        fname = key.rsplit(".", 1)[1]
        public = not fname.startswith("_") or (fname.startswith("__") and fname.endswith("__"))
        rows.append("(%s, %s, %s)" % (lstr(key), "true" if public else "false", defname(key)))
    o.defn("RNG_TABLE", "List (String × Bool × Sk)", "[\n  " + ",\n  ".join(rows) + "]",
           "every function of cnvlib/skgenome that reaches np.random.* / random.*: (name, public, RNG skeleton)")
    o.defn("PY_RANDOM_USERS", "List String",
           "[" + ", ".join(lstr(m.rel) for m in ex.mods if m.pyrandom or any(v for v in m.direct)) + "]",
           "modules importing the stdlib `random` module or names from numpy.random / random")
    calls, unordered = _executor_calls(ex)
    o.defn("EXECUTOR_CALLS", "List (String × String × String)",
           "[" + ",\n  ".join("(%s, %s, %s)" % tuple(lstr(x) for x in c) for c in calls) + "]",
           "(file, function, Executor method) for every `with pick_pool(...) / ProcessPoolExecutor(...) as pool` section")
    o.defn("UNORDERED_GATHER_SITES", "List (String × String)",
           "[" + ", ".join("(%s, %s)" % (lstr(a), lstr(b)) for a, b in unordered) + "]",
           "references to as_completed / imap_unordered / wait anywhere in the package")
    muts = _param_mutations(ex)
    o.defn("COLLECTION_PARAM_MUTATIONS", "List (String × String × String × String)",
           "[" + ",\n  ".join("(%s, %s, %s, %s)" % tuple(lstr(x) for x in c) for c in muts) + "]",
           "(file, function, parameter, operation): in-place mutation of an optional collection-valued parameter")
    gw = _guarded_writers(ex)
    o.defn("GUARDED_WRITERS", "List (String × String × String × String)",
           "[" + ",\n  ".join("(%s, %s, %s, %s)" % tuple(lstr(x) for x in c) for c in gw) + "]",
           "(file, function, path given to core.ensure_path, path given to the tabio.write that follows)")
