"""Source expressions -> Generated/ExprsFixMask.lean (see harness/exprtrans.py for the reading of the Python subset):
the bad-bin mask of `fix.mask_bad_bins`, a Boolean function of one reference row and of which columns the reference has.
Props/C04SrcMask.lean proves that the hand-written model function `badBin` equals the generated one."""
from ..exprtrans import emit_bool

NAME = "ExprsFixMask"
BOOL_SPECS = [
    ("cnvlib/fix.py", "mask_bad_bins", "src_mask_bad_bins", {},
     "fix.mask_bad_bins for one row (params.* constants inlined as the exact doubles; the asserts are preconditions)"),
]


def extract(repo, o):
    emit_bool(repo, o, BOOL_SPECS)
