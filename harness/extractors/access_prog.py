"""cnvlib/access.py:do_access -> Generated/AccessProg.lean: the BODY of `do_access` as a term of the command language of
lean/CnvVerif/Model/AccessExt5.lean (`C13P.AStmt`).  Props/C13Prog.lean proves that this program, interpreted by
`C13P.runDoAccess`, EQUALS the hand-written model `doAccess` for all inputs, so an edit of the glue (a dropped or
reordered step, the exclude loop applied to the wrong variable or left after the first file, join before exclude, the
name filter on the wrong branch, another read format) changes the term and breaks that obligation.

Reading rules (trusted):
 * the function has exactly four parameters; they are variables 0..3 in declaration order (FASTA path, exclude paths,
   minimum gap, skip flag).  Locals are numbered 4.. in the order of their first binding (assignment target or loop
   variable): local NAMES are not part of the term (alpha-renaming preserves behaviour).
 * statements: `x = <expr>`; `if <name>:` without else; `for <name> in <name>:` without else whose body holds no
   return / break / continue; `return <expr>`; the docstring is skipped.  Consecutive statements nest to the right.
 * expressions: a bound name; a string constant; `f(a)` / `f(a, b)` for f among get_regions,
   drop_noncanonical_contigs, join_regions, `<GenomicArray or its import alias>.from_rows`, `tabio.read` (its second
   argument may be spelt `fmt=`); `<expr>.subtract(<expr>)`.
Anything else raises: the check reports a broken tie."""
import ast
import os
from ..translate import parse, find_func

NAME = "AccessProg"
IMPORTS = ["CnvVerif.Model.AccessExt5"]

_PLAIN = {"get_regions": ".getRegions", "drop_noncanonical_contigs": ".dropNoncanonical", "join_regions": ".joinRegions"}


def _aliases(tree):
    """names under which skgenome's GenomicArray / tabio are visible in the module"""
    ga, tb = {"GenomicArray"}, set()
    for n in tree.body:
        if isinstance(n, ast.ImportFrom) and (n.module or "").split(".")[0] == "skgenome":
            for a in n.names:
                if a.name == "GenomicArray":
                    ga.add(a.asname or a.name)
                if a.name == "tabio":
                    tb.add(a.asname or a.name)
    return ga, tb


def extract(repo, o):
    tree, _ = parse(os.path.join(repo, "cnvlib/access.py"))
    fn = find_func(tree, "do_access")
    ga, tb = _aliases(tree)
    params = [a.arg for a in fn.args.args]
    if len(params) != 4 or fn.args.vararg or fn.args.kwarg or fn.args.kwonlyargs:
        raise ValueError("do_access no longer has exactly four plain parameters")
    ids = {p: k for k, p in enumerate(params)}

    def bind(name):
        if name not in ids:
            ids[name] = len(ids)
        return ids[name]

    def fname(f):
        if isinstance(f, ast.Name) and f.id in _PLAIN:
            return _PLAIN[f.id]
        if isinstance(f, ast.Attribute) and isinstance(f.value, ast.Name):
            if f.value.id in ga and f.attr == "from_rows":
                return ".fromRows"
            if f.value.id in tb and f.attr == "read":
                return ".tabioRead"
        return None

    def expr(e):
        if isinstance(e, ast.Name):
            if e.id not in ids:
                raise ValueError("do_access: unbound name " + e.id)
            return f"(.var {ids[e.id]})"
        if isinstance(e, ast.Constant) and isinstance(e.value, str):
            return "(.str " + '"' + e.value.replace("\\", "\\\\").replace('"', '\\"') + '")'
        if isinstance(e, ast.Call):
            f = fname(e.func)
            args = list(e.args)
            if f == ".tabioRead" and len(args) == 1 and len(e.keywords) == 1 and e.keywords[0].arg == "fmt":
                args.append(e.keywords[0].value)
            elif e.keywords:
                raise ValueError("do_access: keyword arguments not read: " + ast.unparse(e))
            if f is not None and len(args) == 1:
                return f"(.call1 {f} {expr(args[0])})"
            if f is not None and len(args) == 2:
                return f"(.call2 {f} {expr(args[0])} {expr(args[1])})"
            if isinstance(e.func, ast.Attribute) and e.func.attr == "subtract" and len(args) == 1:
                return f"(.subtract {expr(e.func.value)} {expr(args[0])})"
        raise ValueError("do_access: expression outside the read subset: " + ast.unparse(e))

    def stmts(body, in_loop=False):
        body = [s for s in body if not (isinstance(s, ast.Expr) and isinstance(s.value, ast.Constant))]
        if not body:
            raise ValueError("do_access: empty block")
        out = []
        for s in body:
            if isinstance(s, ast.Assign) and len(s.targets) == 1 and isinstance(s.targets[0], ast.Name):
                rhs = expr(s.value)
                out.append(f"(.assign {bind(s.targets[0].id)} {rhs})")
            elif isinstance(s, ast.If) and isinstance(s.test, ast.Name) and not s.orelse:
                if s.test.id not in ids:
                    raise ValueError("do_access: unbound name " + s.test.id)
                out.append(f"(.ifVar {ids[s.test.id]} {stmts(s.body, in_loop)})")
            elif isinstance(s, ast.For) and isinstance(s.target, ast.Name) and isinstance(s.iter, ast.Name) \
                    and not s.orelse and not in_loop:
                if s.iter.id not in ids:
                    raise ValueError("do_access: unbound name " + s.iter.id)
                it = ids[s.iter.id]
                v = bind(s.target.id)
                out.append(f"(.forIn {v} {it} {stmts(s.body, True)})")
            elif isinstance(s, ast.Return) and s.value is not None and not in_loop:
                out.append(f"(.ret {expr(s.value)})")
            else:
                raise ValueError("do_access: statement outside the read subset: " + ast.unparse(s).splitlines()[0])
        term = out[-1]
        for t in reversed(out[:-1]):
            term = f"(.seq {t} {term})"
        return term

    o.lines.append("open CnvVerif.C13P\n")
    o.defn("DO_ACCESS_PROG", "AStmt", stmts(fn.body),
           "the body of cnvlib.access.do_access (variables: 0..3 = the parameters in order, 4.. = locals in order of "
           "first binding)")
    dflt = fn.args.defaults
    ex_default = dflt[0] if len(dflt) == 3 else None
    empty = isinstance(ex_default, (ast.Tuple, ast.List)) and not ex_default.elts
    o.defn("DO_ACCESS_EXCLUDE_DEFAULT_EMPTY", "Bool", "true" if empty else "false",
           "do_access: `exclude_fnames` left out means no exclude file")
