"""Control structure of `skgenome/subdivide.py:_split_targets` -> Generated/ExprsSplitLoop.lean (C06).

See harness/splitloop.py for the reading rules.  The arithmetic pieces (`src_split_keeps`, `src_split_nbins`,
`src_split_bin_end`) stay in Generated/ExprsInterval.lean; what is re-read here on every run is the loop structure around
them: the guard, the `nbins == 1` branch, the inner `for i in range(1, nbins)` loop with its carried `bin_start`, the
yield after it and what the outer loop runs over.  Props/C06SrcSplitLoop.lean proves that `splitRow` /
`subdivideTable` of Model/Interval.lean EQUAL this reading."""
from ..splitloop import emit_skeleton

NAME = "ExprsSplitLoop"
IMPORTS = ["CnvVerif.Model.PyPrims", "CnvVerif.Generated.ExprsInterval"]


def extract(repo, o):
    o.lines.append("set_option linter.unusedVariables false\nopen CnvVerif\n")
    emit_skeleton(repo, o, "skgenome/subdivide.py", "_split_targets", "src_splitloop")
