"""Glue of the chromosomal-sex report -> Generated/ExprsSexGlue.lean (round 5b).

Read on every run from cnvlib/cnary.py (`CopyNumArray.guess_xx`) and cnvlib/commands.py (`do_sex`: the nested
`strsign` and `guess_and_format`).  Props/C15SrcGlue.lean proves the hand-written `guessXX`, `sexRow`, `strsign`
(Model/SexExt5.lean) equal to these definitions.  Reading rules (part of the trusted base):

* the call `<obj>.compare_sex_chromosomes(...)` is bound to the SIGNATURE of `compare_sex_chromosomes` as written in
  cnary.py (positional order, keywords, defaults): each of `is_haploid_x_reference`, `diploid_parx_genome`, `skip_low`
  is a parameter of the caller (passed through by name), or a literal (`True` / `False` / `None`), or the default of
  the signature.  `compare_sex_chromosomes` itself is an abstract parameter returning (decision or None, statistics or
  the empty dict = `none`);
* `guess_xx`: the body is evaluated once for `is_xy = None` and once for a decision.  Statements without a `return`
  or an assignment (logging, `if verbose: logging.info(..)`) are effects and skipped; `x is None`, `x is not None`,
  `not ..` on the decision (directly or through a named local) are decided by the case; `~d` / `not d` on a decision is
  its boolean negation (it is a numpy bool);
* `guess_and_format`: returns a 4-tuple; element 0 (the sample's name) is not read.  A conditional on the truth of the
  decision (`None` and `False` are false) chooses between two string literals; a conditional on the truth of the
  statistics dict (`{}` is false) chooses between `strsign(stats[<key>])` and a string literal;
* `strsign`: every return is `<literal> % num`, possibly with `"+" +` in front and through a named local; exactly two
  results `"+" ++ f` and `f`; the "+" stands in the branch where the test is TRUE (so never for NaN); the test is one
  comparison of `num` with a number, normalised to `num <op> c`.
"""
import ast
import os

from ..exprtrans import Untranslatable, _rat

NAME = "ExprsSexGlue"
CNARY = "cnvlib/cnary.py"
COMMANDS = "cnvlib/commands.py"
CALLEE = "compare_sex_chromosomes"
ROLES = {"is_haploid_x_reference": "Bool", "diploid_parx_genome": "Option String", "skip_low": "Bool"}
CSC_TYPE = "Bool → Option String → Bool → Option Bool × Option σ"


def _fail(o, lean, what, e):
    o.lines.append(f"-- NOT TRANSLATED: {what}: {type(e).__name__}: {str(e)[:200]}".replace("\n", " "))
    o.info[lean] = {"error": str(e)[:200]}


def _lit(e, ty):
    if isinstance(e, ast.Constant):
        if ty == "Bool" and isinstance(e.value, bool):
            return "true" if e.value else "false"
        if ty == "Option String" and e.value is None:
            return "none"
        if ty == "Option String" and isinstance(e.value, str):
            return '(some "%s")' % e.value
    raise Untranslatable("argument is neither a literal nor a parameter: " + ast.unparse(e))


def _call_args(call, callee_def, caller_params):
    """the three arguments of compare_sex_chromosomes, as Lean terms over the caller's parameters"""
    sig = [a.arg for a in callee_def.args.args][1:]        # without self
    dflt = dict(zip(sig[len(sig) - len(callee_def.args.defaults):], callee_def.args.defaults))
    if sig != list(ROLES):
        raise Untranslatable("signature of compare_sex_chromosomes changed: " + ", ".join(sig))
    given = dict(zip(sig, call.args))
    if len(call.args) > len(sig):
        raise Untranslatable("too many positional arguments")
    for kw in call.keywords:
        if kw.arg not in sig or kw.arg in given:
            raise Untranslatable("keyword " + str(kw.arg))
        given[kw.arg] = kw.value
    out = []
    for p in sig:
        e = given.get(p, dflt.get(p))
        if e is None:
            raise Untranslatable("no value for " + p)
        if isinstance(e, ast.Name):
            if e.id in caller_params and e.id in ROLES and ROLES[e.id] == ROLES[p]:
                out.append(e.id)
                continue
            raise Untranslatable(f"{p} is given the name {e.id}")
        out.append(_lit(e, ROLES[p]))
    return out


def _first_call(fn):
    """`a, b = <obj>.compare_sex_chromosomes(...)` as the first statement that is not a docstring"""
    body = [s for s in fn.body if not (isinstance(s, ast.Expr) and isinstance(s.value, ast.Constant))]
    s = body[0]
    if not (isinstance(s, ast.Assign) and len(s.targets) == 1 and isinstance(s.targets[0], ast.Tuple)
            and len(s.targets[0].elts) == 2 and all(isinstance(t, ast.Name) for t in s.targets[0].elts)
            and isinstance(s.value, ast.Call) and isinstance(s.value.func, ast.Attribute)
            and s.value.func.attr == CALLEE):
        raise Untranslatable("first statement is not `a, b = x.compare_sex_chromosomes(...)`")
    return [t.id for t in s.targets[0].elts], s.value, body[1:]


def _has_flow(stmts):
    return any(isinstance(n, (ast.Return, ast.Assign, ast.AugAssign, ast.Raise)) for s in stmts for n in ast.walk(s))


# ---------------------------------------------------------------------------------------------- guess_xx
def _guess_case(stmts, dec, present):
    """the value returned for `dec` = None (present=False) / a decision (present=True), as a Lean `Option Bool`"""
    env = {}

    def sub(e):
        while isinstance(e, ast.Name) and e.id in env:
            e = env[e.id]
        return e

    def test(e):
        e = sub(e)
        if isinstance(e, ast.UnaryOp) and isinstance(e.op, ast.Not):
            return not test(e.operand)
        if isinstance(e, ast.Compare) and len(e.ops) == 1 and isinstance(e.ops[0], (ast.Is, ast.IsNot)):
            l, r = sub(e.left), sub(e.comparators[0])
            if isinstance(l, ast.Name) and l.id == dec and isinstance(r, ast.Constant) and r.value is None:
                return (not present) if isinstance(e.ops[0], ast.Is) else present
        raise Untranslatable("test not decided by `is None`: " + ast.unparse(e))

    def value(e):
        e = sub(e)
        if isinstance(e, ast.Constant) and e.value is None:
            return "none"
        if not present:
            raise Untranslatable("returns something other than None without a decision: " + ast.unparse(e))

        def b(x):
            x = sub(x)
            if isinstance(x, ast.Name) and x.id == dec:
                return dec
            if isinstance(x, ast.UnaryOp) and isinstance(x.op, (ast.Invert, ast.Not)):
                return f"(!{b(x.operand)})"
            if isinstance(x, ast.Constant) and isinstance(x.value, bool):
                return "true" if x.value else "false"
            raise Untranslatable("returned value " + ast.unparse(x))
        return f"some {b(e)}"

    def run(stmts):
        for s in stmts:
            if isinstance(s, ast.Return):
                return value(s.value if s.value is not None else ast.Constant(None))
            if isinstance(s, ast.Assign) and len(s.targets) == 1 and isinstance(s.targets[0], ast.Name) \
                    and s.targets[0].id != dec:
                env[s.targets[0].id] = s.value
                continue
            if not _has_flow([s]):
                continue                  # an effect (logging)
            if isinstance(s, ast.If):
                r = run(s.body if test(s.test) else s.orelse)
                if r is not None:
                    return r
                continue
            raise Untranslatable("statement " + type(s).__name__)
        return None
    r = run(stmts)
    return "none" if r is None else r     # falling off the end returns None


def _guess_xx(o, tree):
    from ..translate import find_func
    lean = "src_guess_xx"
    try:
        fn = find_func(tree, "guess_xx", cls="CopyNumArray")
        csc = find_func(tree, CALLEE, cls="CopyNumArray")
        (dec, _stats), call, rest = _first_call(fn)
        args = _call_args(call, csc, [a.arg for a in fn.args.args])
        none_v = _guess_case(rest, dec, False)
        some_v = _guess_case(rest, dec, True)
    except (Untranslatable, KeyError, IndexError, AttributeError) as e:
        return _fail(o, lean, CNARY + ":guess_xx", e)
    o.lines.append(
        "/-- cnary.guess_xx: the arguments handed to compare_sex_chromosomes (abstract) and what is returned without / "
        "with a decision; logging is not read -/\n"
        f"def {lean} {{σ : Type}} (compare_sex_chromosomes : {CSC_TYPE})\n"
        "    (is_haploid_x_reference : Bool) (diploid_parx_genome : Option String) : Option Bool :=\n"
        f"  let r := compare_sex_chromosomes {' '.join(args)}\n"
        f"  match r.1 with\n  | none => {none_v}\n  | some {dec} => {some_v}")
    o.info[lean] = {"args": args}


# ---------------------------------------------------------------------------------------------- do_sex
def _strsign(o, fn):
    lean = "src_strsign_plus"
    try:
        num = fn.args.args[0].arg
        env = {}

        def text(e):
            if isinstance(e, ast.Name) and e.id in env:
                return env[e.id]
            if isinstance(e, ast.BinOp) and isinstance(e.op, ast.Mod) and isinstance(e.left, ast.Constant) \
                    and isinstance(e.left.value, str) and isinstance(e.right, ast.Name) and e.right.id == num:
                return e.left.value
            if isinstance(e, ast.BinOp) and isinstance(e.op, ast.Add) and isinstance(e.left, ast.Constant) \
                    and isinstance(e.left.value, str):
                return e.left.value + text(e.right)
            raise Untranslatable("string " + ast.unparse(e))
        res = []   # (test or None, text)
        body = [s for s in fn.body if not (isinstance(s, ast.Expr) and isinstance(s.value, ast.Constant))]
        for s in body:
            if isinstance(s, ast.Assign) and len(s.targets) == 1 and isinstance(s.targets[0], ast.Name):
                env[s.targets[0].id] = text(s.value)
            elif isinstance(s, ast.If) and len(s.body) == 1 and isinstance(s.body[0], ast.Return) and not res:
                res.append((s.test, text(s.body[0].value)))
                if s.orelse:
                    if not (len(s.orelse) == 1 and isinstance(s.orelse[0], ast.Return)):
                        raise Untranslatable("else branch")
                    res.append((None, text(s.orelse[0].value)))
                    break
            elif isinstance(s, ast.Return):
                if isinstance(s.value, ast.IfExp) and not res:
                    res += [(s.value.test, text(s.value.body)), (None, text(s.value.orelse))]
                else:
                    res.append((None, text(s.value)))
                break
            else:
                raise Untranslatable("statement " + ast.unparse(s)[:60])
        if len(res) != 2 or res[0][0] is None or res[1][0] is not None:
            raise Untranslatable("expected one test and two results")
        (t, plus), (_n, plain) = res
        if plus != "+" + plain:
            raise Untranslatable(f"results {plus!r} / {plain!r}: the \"+\" is not in the branch where the test holds")
        if not (isinstance(t, ast.Compare) and len(t.ops) == 1):
            raise Untranslatable("test " + ast.unparse(t))
        l, r, op = t.left, t.comparators[0], type(t.ops[0])
        flip = {ast.Gt: ast.Lt, ast.Lt: ast.Gt, ast.GtE: ast.LtE, ast.LtE: ast.GtE}
        if not (isinstance(l, ast.Name) and l.id == num):
            l, r, op = r, l, flip.get(op)
        sym = {ast.Gt: ">", ast.Lt: "<", ast.GtE: "≥", ast.LtE: "≤"}.get(op)
        if sym is None or not (isinstance(l, ast.Name) and l.id == num):
            raise Untranslatable("test " + ast.unparse(t))
        neg = isinstance(r, ast.UnaryOp) and isinstance(r.op, ast.USub)
        c = r.operand if neg else r
        if not (isinstance(c, ast.Constant) and isinstance(c.value, (int, float)) and not isinstance(c.value, bool)):
            raise Untranslatable("test " + ast.unparse(t))
        cv = _rat(-c.value if neg else c.value)
    except (Untranslatable, KeyError, IndexError, AttributeError) as e:
        _fail(o, lean, COMMANDS + ":do_sex.strsign", e)
        _fail(o, "src_strsign_format", COMMANDS + ":do_sex.strsign", e)
        return
    o.lines.append("/-- commands.do_sex.strsign: when a \"+\" is put in front of the number -/\n"
                   f"def {lean} ({num} : Rat) : Bool :=\n  decide ({num} {sym} {cv})")
    o.lines.append("/-- ... and the format of the number itself -/\n"
                   f"def src_strsign_format : String := \"{plain}\"")
    o.info[lean] = {"ok": True}
    o.info["src_strsign_format"] = plain


def _row(o, gf, csc, outer_params):
    lean = "src_sex_row"
    try:
        (dec, stats), call, rest = _first_call(gf)
        args = _call_args(call, csc, outer_params)
        env = {}
        ret = None
        for s in rest:
            if isinstance(s, ast.Assign) and len(s.targets) == 1 and isinstance(s.targets[0], ast.Name) \
                    and s.targets[0].id not in (dec, stats):
                env[s.targets[0].id] = s.value
            elif isinstance(s, ast.Return):
                ret = s.value
                break
            elif _has_flow([s]):
                raise Untranslatable("statement " + type(s).__name__)

        def sub(e):
            while isinstance(e, ast.Name) and e.id in env:
                e = env[e.id]
            return e
        ret = sub(ret)
        if not (isinstance(ret, ast.Tuple) and len(ret.elts) == 4):
            raise Untranslatable("the row is not a 4-tuple")

        def truth(e, name):
            """(polarity) of a truth test of `name`"""
            e = sub(e)
            if isinstance(e, ast.UnaryOp) and isinstance(e.op, ast.Not):
                return not truth(e.operand, name)
            if isinstance(e, ast.Name) and e.id == name:
                return True
            raise Untranslatable(f"test is not the truth of {name}: " + ast.unparse(e))

        def strlit(e):
            e = sub(e)
            if isinstance(e, ast.Constant) and isinstance(e.value, str):
                return '"%s"' % e.value
            raise Untranslatable("not a string literal: " + ast.unparse(e))

        sex = sub(ret.elts[1])
        if not isinstance(sex, ast.IfExp):
            raise Untranslatable("sex column " + ast.unparse(sex))
        a, b = strlit(sex.body), strlit(sex.orelse)
        if not truth(sex.test, dec):
            a, b = b, a
        sex_l = f"(if r.1 == some true then {a} else {b})"

        def cell(e):
            e = sub(e)
            if not isinstance(e, ast.IfExp):
                raise Untranslatable("ratio column " + ast.unparse(e))
            yes, no = (e.body, e.orelse) if truth(e.test, stats) else (e.orelse, e.body)
            yes = sub(yes)
            if not (isinstance(yes, ast.Call) and isinstance(yes.func, ast.Name) and yes.func.id == "strsign"
                    and len(yes.args) == 1 and isinstance(yes.args[0], ast.Subscript)
                    and isinstance(yes.args[0].value, ast.Name) and yes.args[0].value.id == stats
                    and isinstance(yes.args[0].slice, ast.Constant) and isinstance(yes.args[0].slice.value, str)):
                raise Untranslatable("ratio column with statistics: " + ast.unparse(yes))
            return (f"(match r.2 with | some {stats} => strsign (get {stats} \"{yes.args[0].slice.value}\") "
                    f"| none => lit {strlit(no)})")
        cx, cy = cell(ret.elts[2]), cell(ret.elts[3])
    except (Untranslatable, KeyError, IndexError, AttributeError) as e:
        return _fail(o, lean, COMMANDS + ":do_sex.guess_and_format", e)
    o.lines.append(
        "/-- commands.do_sex.guess_and_format without the sample's name: sex, X_logratio, Y_logratio.  "
        "`compare_sex_chromosomes`, the dict lookup `get`, `strsign` and the rendering `lit` of a literal are abstract -/\n"
        f"def {lean} {{σ κ : Type}} (compare_sex_chromosomes : {CSC_TYPE})\n"
        "    (get : σ → String → Option Rat) (strsign : Option Rat → κ) (lit : String → κ)\n"
        "    (is_haploid_x_reference : Bool) (diploid_parx_genome : Option String) : String × κ × κ :=\n"
        f"  let r := compare_sex_chromosomes {' '.join(args)}\n"
        f"  ({sex_l},\n   {cx},\n   {cy})")
    o.info[lean] = {"args": args}


def extract(repo, o):
    from ..translate import parse, find_func
    tree, _src = parse(os.path.join(repo, CNARY))
    _guess_xx(o, tree)
    ctree, _src = parse(os.path.join(repo, COMMANDS))
    try:
        do_sex = find_func(ctree, "do_sex")
        csc = find_func(tree, CALLEE, cls="CopyNumArray")
        nested = {n.name: n for n in ast.walk(do_sex) if isinstance(n, ast.FunctionDef) and n is not do_sex}
        ss, gf = nested["strsign"], nested["guess_and_format"]
    except (KeyError, IndexError) as e:
        for nm in ("src_strsign_plus", "src_strsign_format", "src_sex_row"):
            _fail(o, nm, COMMANDS + ":do_sex", e)
        return
    _strsign(o, ss)
    _row(o, gf, csc, [a.arg for a in do_sex.args.args])
