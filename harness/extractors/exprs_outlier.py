"""Source text of the outlier filter of `segment` -> Generated/ExprsOutlier.lean (C03, round 5).

Read: `cnvlib/smoothing.py: rolling_outlier_quantile` (the decision rule), `cnvlib/segmentation/__init__.py: drop_outliers`
(how the rule is applied to a bin table) and the call of `drop_outliers` in `_do_segmentation`.  Props/C03SrcOutlier.lean
proves that the hand-written model (`Model/TileOutlierExt5.lean`) IS these definitions.

Reading rules of this file (a narrow reader of its own; part of the trusted base; anything else raises -> broken tie)
* `rolling_outlier_quantile(x, width, q, m)` is read ELEMENTWISE: `x` is one element of the array, every parameter a `Rat`;
* the statement `if len(x) <= width: return np.zeros(len(x), dtype=<bool>)` is read as two definitions: the test with
  `len(x)` = `x_len` (`src_outl_short`), and the value every element gets when it holds (`np.zeros(.., dtype=bool)` =
  `false`, `src_outl_short_value`); no other statement may precede the rest of the body;
* a local bound exactly once by a plain assignment is read through to its defining expression (so a renamed or removed
  local does not change what is generated); the function's result is the expression of its final `return`;
* `np.abs(e)` / `np.absolute(e)` / `np.fabs(e)` / `abs(e)` is `src_outl_abs e` (`if e < 0 then -e else e`);
  `+ - *` and unary minus are exact on rationals; one comparison `> >= < <=` is `decide (..)`; numeric literals are the
  exact doubles;
* a call of `savgol` / `rolling_quantile` (bare or `smoothing.`-qualified) is OPAQUE: its value at this element is the
  parameter `trend` / `quants`; WHAT is passed to it is recorded as a string (`src_outl_trend_of`, `src_outl_quants_of`:
  the arguments rendered by these same rules, nested opaque calls shown as `name(args)`) and pinned by a theorem;
* the generated signature is fixed: `(x width q m trend quants : Rat)`;
* `drop_outliers(cnarr, width, factor)`: the unique call of `rolling_outlier_quantile` is read for its arguments --
  `sub["col"]` gives the column (`src_drop_outliers_column`), a bare name gives the name of the parameter passed on
  (`.._width_arg`, `.._factor_arg`), the literal gives the quantile (`src_drop_outliers_q`, exact double); the method called
  on the table in the enclosing comprehension's `for` is the grouping (`src_drop_outliers_groups`); the masks are joined by
  `np.concatenate` of that comprehension (`src_drop_outliers_join`); the final `return cnarr[<e>]` is read on one row with
  the concatenated mask's element as the Boolean parameter `mask` (`~` = `!`): `src_drop_outliers_keep`;
  `if not len(cnarr): return cnarr` (an empty table is returned as it is) and `logging` statements are skipped;
* `_do_segmentation`: the unique call `drop_outliers(<table>, <literal>, <name>)` gives `src_segment_outlier_width`; the
  name passed as factor and the name tested by the enclosing `if` are recorded (`.._factor_arg`, `.._guard`).
"""
import ast
import os

from ..translate import parse, find_func, rat, lstr

NAME = "ExprsOutlier"
SMOOTH, SEG = "cnvlib/smoothing.py", "cnvlib/segmentation/__init__.py"
OPAQUE = {"savgol": "trend", "rolling_quantile": "quants"}
ABS = {"abs", "absolute", "fabs"}
CMP = {ast.Gt: ">", ast.GtE: "≥", ast.Lt: "<", ast.LtE: "≤"}
BIN = {ast.Add: "+", ast.Sub: "-", ast.Mult: "*"}


class Bad(Exception):
    pass


def _callee(c):
    f = c.func
    if isinstance(f, ast.Name):
        return f.id
    if isinstance(f, ast.Attribute) and isinstance(f.value, ast.Name):
        return f.attr
    return None


class _Rd:
    def __init__(self, params, env):
        self.params, self.env, self.calls = params, env, {}

    def tr(self, n, show=False):
        """Lean term of an expression; `show` = render opaque calls as text (inside a recorded argument list)"""
        if isinstance(n, ast.Name):
            if n.id in self.env:
                return self.tr(self.env[n.id], show)
            if n.id in self.params:
                return n.id
            raise Bad("unbound name " + n.id)
        if isinstance(n, ast.Constant) and isinstance(n.value, (int, float)) and not isinstance(n.value, bool):
            return f"({rat(n.value)} : Rat)"
        if isinstance(n, ast.UnaryOp) and isinstance(n.op, ast.USub):
            return f"(-{self.tr(n.operand, show)})"
        if isinstance(n, ast.BinOp) and type(n.op) in BIN:
            return f"({self.tr(n.left, show)} {BIN[type(n.op)]} {self.tr(n.right, show)})"
        if isinstance(n, ast.Compare) and len(n.ops) == 1 and type(n.ops[0]) in CMP:
            return f"decide ({self.tr(n.left, show)} {CMP[type(n.ops[0])]} {self.tr(n.comparators[0], show)})"
        if isinstance(n, ast.Call) and not n.keywords:
            name = _callee(n)
            if name in ABS and len(n.args) == 1:
                return f"src_outl_abs {self.tr(n.args[0], show)}"
            if name in OPAQUE:
                text = name + "(" + ", ".join(self.tr(a, True) for a in n.args) + ")"
                if show:
                    return text
                role = OPAQUE[name]
                if self.calls.setdefault(role, text) != text:
                    raise Bad(f"{name} called with two different argument lists")
                return role
        raise Bad("outside the subset: " + ast.unparse(n))


def _body(fn):
    return [s for s in fn.body if not (isinstance(s, ast.Expr) and isinstance(s.value, ast.Constant))
            and not (isinstance(s, ast.Expr) and isinstance(s.value, ast.Call) and isinstance(s.value.func, ast.Attribute)
                     and isinstance(s.value.func.value, ast.Name) and s.value.func.value.id == "logging")]


def _is_len_of(n, name):
    return isinstance(n, ast.Call) and _callee(n) == "len" and len(n.args) == 1 and isinstance(n.args[0], ast.Name) \
        and n.args[0].id == name


def _rule(repo, o):
    tree, _ = parse(os.path.join(repo, SMOOTH))
    fn = find_func(tree, "rolling_outlier_quantile")
    params = [a.arg for a in fn.args.args]
    if params != ["x", "width", "q", "m"]:
        raise Bad("rolling_outlier_quantile: parameters are not (x, width, q, m)")
    body = _body(fn)
    g = body[0]
    if not (isinstance(g, ast.If) and not g.orelse and len(g.body) == 1 and isinstance(g.body[0], ast.Return)
            and isinstance(g.test, ast.Compare) and len(g.test.ops) == 1 and type(g.test.ops[0]) in CMP):
        raise Bad("rolling_outlier_quantile: no leading `if len(x) <cmp> width: return ...`")

    def side(n):
        if _is_len_of(n, "x"):
            return "x_len"
        if isinstance(n, ast.Name) and n.id == "width":
            return "width"
        if isinstance(n, ast.Constant) and isinstance(n.value, int):
            return f"({n.value} : Rat)"
        if isinstance(n, ast.BinOp) and type(n.op) in BIN:
            return f"({side(n.left)} {BIN[type(n.op)]} {side(n.right)})"
        raise Bad("short-array test outside the subset: " + ast.unparse(n))
    o.defn("src_outl_short", "Rat → Rat → Bool",
           f"fun x_len width => decide ({side(g.test.left)} {CMP[type(g.test.ops[0])]} {side(g.test.comparators[0])})",
           "rolling_outlier_quantile: the test of the leading `if`, len(x) = x_len")
    v = g.body[0].value
    ok = isinstance(v, ast.Call) and _callee(v) == "zeros" and len(v.args) == 1 and _is_len_of(v.args[0], "x") \
        and len(v.keywords) == 1 and v.keywords[0].arg == "dtype" \
        and ast.unparse(v.keywords[0].value) in ("np.bool_", "bool", "np.bool", "numpy.bool_")
    if not ok:
        raise Bad("short-array value is not np.zeros(len(x), dtype=bool): " + ast.unparse(v))
    o.defn("src_outl_short_value", "Bool", "false", "rolling_outlier_quantile: what every element gets then (np.zeros, bool)")
    env, ret = {}, None
    for s in body[1:]:
        if isinstance(s, ast.Assign) and len(s.targets) == 1 and isinstance(s.targets[0], ast.Name):
            t = s.targets[0].id
            if t in env or t in params:
                raise Bad("local bound twice: " + t)
            env[t] = s.value
        elif isinstance(s, ast.Return) and s is body[-1]:
            ret = s.value
        else:
            raise Bad("statement outside the subset: " + ast.unparse(s))
    if ret is None:
        raise Bad("no final return")
    rd = _Rd(set(params), env)
    term = rd.tr(ret)
    o.lines.append("/-- np.abs, elementwise -/")
    o.lines.append("def src_outl_abs (e : Rat) : Rat := if e < 0 then -e else e")
    o.lines.append("/-- rolling_outlier_quantile: the returned mask at one element; `trend`, `quants` = the values of the opaque "
                   "calls there -/")
    o.lines.append(f"def src_outl_elem (x width q m trend quants : Rat) : Bool := {term}")
    o.info["src_outl_elem"] = term
    for role in ("trend", "quants"):
        o.defn(f"src_outl_{role}_of", "String", lstr(rd.calls.get(role, "")),
               f"rolling_outlier_quantile: the call whose value is `{role}`")


def _drop(repo, o):
    tree, src = parse(os.path.join(repo, SEG))
    fn = find_func(tree, "drop_outliers")
    params = [a.arg for a in fn.args.args]
    calls = [c for c in ast.walk(fn) if isinstance(c, ast.Call) and _callee(c) == "rolling_outlier_quantile"]
    if len(calls) != 1 or len(calls[0].args) != 4 or calls[0].keywords:
        raise Bad("drop_outliers: not exactly one 4-argument call of rolling_outlier_quantile")
    a = calls[0].args
    if not (isinstance(a[0], ast.Subscript) and isinstance(a[0].slice, ast.Constant) and isinstance(a[0].slice.value, str)
            and isinstance(a[0].value, ast.Name)):
        raise Bad("drop_outliers: first argument is not sub['col']")
    o.defn("src_drop_outliers_column", "String", lstr(a[0].slice.value), "drop_outliers: the column the rule is applied to")
    for k, role in ((1, "width"), (3, "factor")):
        if not (isinstance(a[k], ast.Name) and a[k].id in params):
            raise Bad(f"drop_outliers: argument {k} is not a parameter passed on")
        o.defn(f"src_drop_outliers_{role}_arg", "Nat", str(params.index(a[k].id)),
               f"drop_outliers: which of its own parameters (position) it passes as `{role}`")
    if not (isinstance(a[2], ast.Constant) and isinstance(a[2].value, float)):
        raise Bad("drop_outliers: quantile is not a float literal")
    o.flt("src_drop_outliers_q", a[2].value, ast.get_source_segment(src, a[2]) or repr(a[2].value),
          "drop_outliers: the quantile")
    comp = [c for c in ast.walk(fn) if isinstance(c, (ast.ListComp, ast.GeneratorExp)) and calls[0] in list(ast.walk(c.elt))]
    if len(comp) != 1 or len(comp[0].generators) != 1 or comp[0].generators[0].ifs:
        raise Bad("drop_outliers: the call is not the element of one plain comprehension")
    it = comp[0].generators[0].iter
    tgt = comp[0].generators[0].target
    sub = tgt.elts[-1].id if isinstance(tgt, ast.Tuple) else getattr(tgt, "id", None)
    if not (isinstance(it, ast.Call) and isinstance(it.func, ast.Attribute) and isinstance(it.func.value, ast.Name)
            and it.func.value.id == params[0] and not it.args and not it.keywords and sub == a[0].value.id):
        raise Bad("drop_outliers: comprehension does not run over <table>.<grouping>() with the group as the rule's input")
    o.defn("src_drop_outliers_groups", "String", lstr(it.func.attr), "drop_outliers: the grouping method of the table")
    join = [s for s in _body(fn) if isinstance(s, ast.Assign) and len(s.targets) == 1 and isinstance(s.targets[0], ast.Name)
            and isinstance(s.value, ast.Call) and s.value.args and s.value.args[0] is comp[0]]
    if len(join) != 1:
        raise Bad("drop_outliers: the masks are not joined by one call on the comprehension")
    o.defn("src_drop_outliers_join", "String", lstr(_callee(join[0].value) or "?"), "drop_outliers: how the per-group masks are joined")
    mask = join[0].targets[0].id
    ret = _body(fn)[-1]
    if not (isinstance(ret, ast.Return) and isinstance(ret.value, ast.Subscript) and isinstance(ret.value.value, ast.Name)
            and ret.value.value.id == params[0]):
        raise Bad("drop_outliers: final statement is not `return <table>[...]`")

    def btr(n):
        if isinstance(n, ast.Name) and n.id == mask:
            return "mask"
        if isinstance(n, ast.UnaryOp) and isinstance(n.op, ast.Invert):
            return f"(!{btr(n.operand)})"
        raise Bad("row selection outside the subset: " + ast.unparse(n))
    o.defn("src_drop_outliers_keep", "Bool → Bool", f"fun mask => {btr(ret.value.slice)}",
           "drop_outliers: is the row kept, given its element of the joined mask")


def _seg(repo, o):
    tree, _ = parse(os.path.join(repo, SEG))
    fn = find_func(tree, "_do_segmentation")
    hits = []
    for n in ast.walk(fn):
        if isinstance(n, ast.If):
            for c in ast.walk(ast.Module(body=n.body, type_ignores=[])):
                if isinstance(c, ast.Call) and _callee(c) == "drop_outliers":
                    hits.append((n, c))
    if len(hits) != 1:
        raise Bad("_do_segmentation: not exactly one guarded call of drop_outliers")
    g, c = hits[0]
    if not (len(c.args) == 3 and not c.keywords and isinstance(c.args[1], ast.Constant) and isinstance(c.args[1].value, int)
            and isinstance(c.args[2], ast.Name) and isinstance(g.test, ast.Name)):
        raise Bad("_do_segmentation: call is not drop_outliers(<table>, <int literal>, <name>) under `if <name>:`")
    o.defn("src_segment_outlier_width", "Nat", str(c.args[1].value), "_do_segmentation: the window width of the outlier filter")
    o.defn("src_segment_outlier_factor_arg", "String", lstr(c.args[2].id), "_do_segmentation: the option passed as factor")
    o.defn("src_segment_outlier_guard", "String", lstr(g.test.id), "_do_segmentation: the option whose truthiness enables the filter")


def extract(repo, o):
    _rule(repo, o)
    _drop(repo, o)
    _seg(repo, o)
