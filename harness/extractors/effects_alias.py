"""Argument-aliasing skeletons of cnvlib / skgenome (Python `ast` only) -> Generated/EffectsAlias.lean  (C10)

For every function of the package: which local names are (re)bound to a NEW object or to (a view of) the object
another name holds, where an object is written IN PLACE, and what is returned -- as a term of `CnvVerif.Alias.ASt`
(sequence / branch / loop), with the function's SUMMARY (the parameters it may write, the parameters whose object it may
return).  Lean re-checks every row against its summary (`Fn.respectsSummary`, sound by Lemmas/Alias.lean) and requires
the pipeline steps and public array methods to write no parameter but, for the in-place methods, `self`.

Reading rules (trusted; the Lean side only sees the skeleton):
* a NEW object: literals, arithmetic / comparisons, comprehensions over new objects, subscripts (`x[mask]`, `x["col"]`:
  GenomicArray.__getitem__, DataFrame / Series selection copy; pandas 3 is copy-on-write), the result of any call that
  is not listed below -- in particular `.copy()`, `list(x)`, `tuple(x)`, `as_dataframe(...)`, constructors;
* the SAME object (or a view of it): `y`, `y.attr` (`cnarr.data`, `.meta`, `.values`), `a if c else b`, `a or b`, the loop
  variable over it, `np.asarray / asanyarray / asfarray / ascontiguousarray /
  atleast_1d (y)`, `y.ravel() / reshape() / squeeze() / view()`, the result of a package function whose summary says it
  may return that argument (callees resolved by bare name, all candidates joined);
* an IN-PLACE write to the object `x` holds: `x[...] = v`, `x.attr = v`, `x[...] op= v`, `x op= v`, `del x[...]`,
  `x.<list/dict/set mutator>(...)`, `x.f(..., inplace=True)`, passing `x` to a package function in a position its
  summary says it writes; storing `v` inside `x` makes `x` hold what `v` holds;
* `return e` / `yield e` hands back what `e` may hold;
* a parameter whose default is a number / string / bool literal holds an immutable value and is left out; `x += "..."`,
  `x += 1` rebind; a tuple / list / dict display or comprehension is a new container (iterating it in place reaches its elements).
"""
import ast

from ..translate import lstr
from . import effects as E

NAME = "EffectsAlias"
IMPORTS = ["CnvVerif.Model.Alias"]
MUTATORS = {"remove", "append", "extend", "insert", "pop", "sort", "clear", "update", "reverse", "setdefault",
            "popitem", "add", "discard", "fill", "itemset", "put", "resize", "partition", "sort_values_inplace"}
# names that are BOTH a list/dict/set mutator and a pure pandas / numpy / package method are decided by the package
# summary when the package defines them, by this list otherwise
PURE_WHEN_THIRD_PARTY = {"add", "update", "resize", "partition", "pop", "sort"}
ALIAS_FUNCS = {"asarray", "asanyarray", "asfarray", "ascontiguousarray", "atleast_1d"}
ALIAS_METHODS = {"ravel", "reshape", "squeeze", "view"}
ARRAY_CLASSES = ("GenomicArray", "CopyNumArray", "VariantArray")
# plotting front ends return figures, not tables: not "pipeline steps" of the property (their rows are still checked)
PLOT_MODULES = ("cnvlib.scatter", "cnvlib.heatmap", "cnvlib.diagram", "cnvlib.plots")
# a call of these is read as NOT writing its receiver although the body assigns to it:
#  GenomicArray.by_arm -- `self.data.chromosome = self.data.chromosome.astype(str)`, a recast that leaves every value of
#  a str column as it is (observation proposed_fixes/C10-by-arm-recasts-chromosome.md, no property clause covers it)
EXEMPT_SELF_WRITERS = ("skgenome.gary.GenomicArray.by_arm",)
NOP = ("nop",)


def seq(*xs):
    out = NOP
    for x in reversed([x for x in xs if x != NOP]):
        out = x if out == NOP else ("seq", x, out)
    return out


def alt(a, b):
    return a if a == b else ("alt", a, b)


def star(a):
    return NOP if a == NOP else ("star", a)


def uniq(xs):
    out = []
    for x in xs:
        if x not in out:
            out.append(x)
    return out


class Body:
    """skeleton of one function under the current summaries"""

    def __init__(self, world, key):
        self.w = world
        self.key = key
        self.m, self.fn = world.funcs[key]

    def build(self):
        return self.block(self.fn.body)

    def block(self, stmts):
        return seq(*[self.stmt(s) for s in stmts])

    # -- targets
    def assign(self, t, v_al, vnode=None):
        if isinstance(t, ast.Name):
            return ("bind", t.id, uniq(v_al))
        if isinstance(t, ast.Starred):
            return self.assign(t.value, v_al)
        if isinstance(t, (ast.Tuple, ast.List)):
            if isinstance(vnode, (ast.Tuple, ast.List)) and len(vnode.elts) == len(t.elts) \
                    and not any(isinstance(x, ast.Starred) for x in list(t.elts) + list(vnode.elts)):
                return seq(*[self.assign(tt, self.ev(vv)[1], vv) for tt, vv in zip(t.elts, vnode.elts)])
            return seq(*[self.assign(tt, v_al) for tt in t.elts])
        if isinstance(t, (ast.Subscript, ast.Attribute)):
            b_ops, b_al = self.ev(t.value)
            s_ops = self.ev(t.slice)[0] if isinstance(t, ast.Subscript) else NOP
            # `x.attr = v` makes x hold what v holds (out.meta = cnarr.meta); an element store `x[k] = v` copies values
            # into frames / arrays and is read as not doing so
            store = [("bind", r, uniq([r] + v_al)) for r in b_al] if (v_al and isinstance(t, ast.Attribute)) else []
            return seq(b_ops, s_ops, ("use", "mut", uniq(b_al)) if b_al else NOP, *store)
        return NOP

    def stmt(self, s):
        if isinstance(s, (ast.FunctionDef, ast.AsyncFunctionDef)):
            a = s.args
            ps = [p.arg for p in a.posonlyargs + a.args + a.kwonlyargs] + [x.arg for x in (a.vararg, a.kwarg) if x]
            return star(seq(*[("bind", p, []) for p in ps], self.block(s.body)))
        if isinstance(s, ast.ClassDef):
            return NOP
        if isinstance(s, ast.Assign):
            v_ops, v_al = self.ev(s.value)
            return seq(v_ops, *[self.assign(t, v_al, s.value) for t in s.targets])
        if isinstance(s, ast.AnnAssign):
            if s.value is None:
                return NOP
            v_ops, v_al = self.ev(s.value)
            return seq(v_ops, self.assign(s.target, v_al, s.value))
        if isinstance(s, ast.AugAssign):
            v_ops = self.ev(s.value)[0]
            t = s.target
            if isinstance(t, ast.Name):
                if isinstance(s.value, ast.JoinedStr) or (isinstance(s.value, ast.Constant) and isinstance(s.value.value, (str, int, float))):
                    return seq(v_ops, ("bind", t.id, []))   # str / number: `x += "..."`, `i += 1` rebind
                return seq(v_ops, ("use", "mut", [t.id]))
            b_ops, b_al = self.ev(t.value)
            return seq(v_ops, b_ops, ("use", "mut", uniq(b_al)) if b_al else NOP)
        if isinstance(s, ast.Delete):
            out = []
            for t in s.targets:
                if isinstance(t, (ast.Subscript, ast.Attribute)):
                    b_ops, b_al = self.ev(t.value)
                    out += [b_ops, ("use", "mut", uniq(b_al)) if b_al else NOP]
                elif isinstance(t, ast.Name):
                    out.append(("bind", t.id, []))
            return seq(*out)
        if isinstance(s, ast.Return):
            ops, al = self.ev(s.value)
            return seq(ops, ("use", "ret", uniq(al)) if al else NOP)
        if isinstance(s, ast.Expr):
            return self.ev(s.value)[0]
        if isinstance(s, (ast.For, ast.AsyncFor)):
            i_ops, i_al = self.ev_iter(s.iter)
            return seq(i_ops, star(seq(self.assign(s.target, i_al), self.block(s.body))), self.block(s.orelse))
        if isinstance(s, ast.While):
            t = self.ev(s.test)[0]
            return seq(t, star(seq(self.block(s.body), t)), self.block(s.orelse))
        if isinstance(s, ast.If):
            return seq(self.ev(s.test)[0], alt(self.block(s.body), self.block(s.orelse)))
        if isinstance(s, (ast.With, ast.AsyncWith)):
            out = []
            for it in s.items:
                ops, al = self.ev(it.context_expr)
                out.append(ops)
                if it.optional_vars is not None:
                    out.append(self.assign(it.optional_vars, al))
            return seq(*out, self.block(s.body))
        if isinstance(s, ast.Try):
            # a handler may start after any prefix of the body: body, then any of the handlers (or none)
            hs = NOP
            for h in reversed(s.handlers):
                hb = seq(("bind", h.name, []) if h.name else NOP, self.block(h.body))
                hs = alt(hb, hs)
            return seq(self.block(s.body), hs, self.block(s.orelse), self.block(s.finalbody))
        if isinstance(s, (ast.Raise, ast.Assert)):
            return seq(*[self.ev(c)[0] for c in ast.iter_child_nodes(s) if isinstance(c, ast.expr)])
        if isinstance(s, (ast.Import, ast.ImportFrom)):
            return seq(*[("bind", (a.asname or a.name).split(".")[0], []) for a in s.names if a.name != "*"])
        return NOP

    def ev_iter(self, e):
        """the elements reached by iterating over `e`: those of a display written in place, else what `e` holds"""
        if isinstance(e, (ast.Tuple, ast.List, ast.Set)):
            ops, al = [], []
            for v in e.elts:
                o, a = self.ev(v)
                ops.append(o)
                al += a
            return seq(*ops), uniq(al)
        return self.ev(e)

    # -- expressions: (side effects, names whose object the value may be)
    def ev(self, e):
        if e is None:
            return NOP, []
        if isinstance(e, ast.Name):
            return NOP, [e.id]
        if isinstance(e, ast.Attribute):
            return self.ev(e.value)
        if isinstance(e, ast.Subscript):
            o1 = self.ev(e.value)[0]
            o2 = self.ev(e.slice)[0]
            return seq(o1, o2), []
        if isinstance(e, ast.Starred):
            return self.ev(e.value)
        if isinstance(e, ast.IfExp):
            t = self.ev(e.test)[0]
            b, ba = self.ev(e.body)
            o, oa = self.ev(e.orelse)
            return seq(t, alt(b, o)), uniq(ba + oa)
        if isinstance(e, ast.BoolOp):
            ops, al = [], []
            for v in e.values:
                o, a = self.ev(v)
                ops.append(o)
                al += a
            # later operands may not be evaluated
            out = NOP
            for o in reversed(ops[1:]):
                out = alt(seq(o, out), NOP)
            return seq(ops[0], out), uniq(al)
        if isinstance(e, ast.NamedExpr):
            o, a = self.ev(e.value)
            return seq(o, self.assign(e.target, a)), a
        if isinstance(e, ast.Lambda):
            a = e.args
            ps = [p.arg for p in a.posonlyargs + a.args + a.kwonlyargs] + [x.arg for x in (a.vararg, a.kwarg) if x]
            return star(seq(*[("bind", p, []) for p in ps], self.ev(e.body)[0])), []
        if isinstance(e, (ast.ListComp, ast.SetComp, ast.GeneratorExp, ast.DictComp)):
            heads, al_through = [], []
            targets = set()
            inner_ops, inner_al = (self.ev(e.value) if isinstance(e, ast.DictComp) else self.ev(e.elt))
            if isinstance(e, ast.DictComp):
                inner_ops = seq(self.ev(e.key)[0], inner_ops)
            body = inner_ops
            for g in reversed(e.generators):
                i_ops, i_al = self.ev_iter(g.iter)
                tn = [n.id for n in ast.walk(g.target) if isinstance(n, ast.Name)]
                targets |= set(tn)
                if set(tn) & set(inner_al):
                    al_through += i_al
                body = seq(i_ops, star(seq(self.assign(g.target, i_al), *[self.ev(c)[0] for c in g.ifs], body)))
            # like a display or `list(x)`: the comprehension is a NEW container (its elements are not tracked)
            return body, []
        if isinstance(e, (ast.Yield, ast.YieldFrom)):
            o, a = self.ev(e.value)
            return seq(o, ("use", "ret", uniq(a)) if a else NOP), []
        if isinstance(e, ast.Await):
            return self.ev(e.value)
        if isinstance(e, ast.Call):
            return self.call(e)
        if isinstance(e, (ast.Tuple, ast.List, ast.Set)):
            return seq(*[self.ev(v)[0] for v in e.elts]), []
        if isinstance(e, ast.Dict):
            return seq(*[self.ev(x)[0] for x in list(e.keys) + list(e.values) if x is not None]), []
        # arithmetic, comparisons, f-strings, constants, slices: new objects
        return seq(*[self.ev(c)[0] for c in ast.iter_child_nodes(e) if isinstance(c, ast.expr)]), []

    def call(self, e):
        ops = []
        f = e.func
        recv_al = None
        if isinstance(f, ast.Attribute):
            o, recv_al = self.ev(f.value)
            ops.append(o)
            name = f.attr
        elif isinstance(f, ast.Name):
            name = f.id
        else:
            ops.append(self.ev(f)[0])
            name = None
        pos, star_al, kws, kwstar_al = [], [], {}, []
        for a in e.args:
            o, al = self.ev(a)
            ops.append(o)
            if isinstance(a, ast.Starred):
                star_al += al
            else:
                pos.append(al)
        for k in e.keywords:
            o, al = self.ev(k.value)
            ops.append(o)
            if k.arg is None:
                kwstar_al += al
            else:
                kws[k.arg] = al
        muts, rets = [], []
        cands = self.w.byname.get(name, []) if name else []
        if recv_al is not None:
            if name in MUTATORS and not (name in PURE_WHEN_THIRD_PARTY and not cands):
                muts += recv_al
            if any(k.arg == "inplace" and isinstance(k.value, ast.Constant) and k.value.value is True for k in e.keywords):
                muts += recv_al
            if name in ALIAS_METHODS:
                rets += recv_al
            if name in ALIAS_FUNCS and pos:
                rets += pos[0]
        elif name in ALIAS_FUNCS and pos:
            rets += pos[0]
        for key in cands:
            ps, vararg, kwarg, is_method = self.w.sig[key]
            bound = list(pos)
            if recv_al is not None and is_method:
                bound = [recv_al] + bound
            elif recv_al is None and is_method:
                continue  # a bare-name call never reaches a method
            wr, rt = self.w.writes[key], self.w.returns[key]
            if key in EXEMPT_SELF_WRITERS:
                wr = wr - {"self"}
            for i, al in enumerate(bound):
                p = ps[i] if i < len(ps) else vararg
                if p in wr:
                    muts += al
                if p in rt:
                    rets += al
            for k, al in kws.items():
                p = k if k in ps else kwarg
                if p in wr:
                    muts += al
                if p in rt:
                    rets += al
            if star_al or kwstar_al:
                if wr:
                    muts += star_al + kwstar_al
                if rt:
                    rets += star_al + kwstar_al
        if muts:
            ops.append(("use", "mut", uniq(muts)))
        return seq(*ops), uniq(rets)


# ---------------------------------------------------------------------------------------------
# the same analysis in Python, per parameter (to FIND the summaries; Lean re-checks them)


def analyse(t, P, W, R):
    """P: name -> frozenset of parameters it may hold; W / R: sets of parameters written / returned (updated)"""
    k = t[0]
    if k == "nop":
        return P
    if k == "bind":
        P = dict(P)
        s = frozenset().union(*[P.get(y, frozenset()) for y in t[2]]) if t[2] else frozenset()
        P[t[1]] = s
        return P
    if k == "use":
        s = frozenset().union(*[P.get(y, frozenset()) for y in t[2]]) if t[2] else frozenset()
        (W if t[1] == "mut" else R).update(s)
        return P
    if k == "seq":
        return analyse(t[2], analyse(t[1], P, W, R), W, R)
    if k == "alt":
        return join(analyse(t[1], P, W, R), analyse(t[2], P, W, R))
    if k == "star":
        cur = P
        while True:
            nxt = join(cur, analyse(t[1], cur, W, R))
            if nxt == cur:
                return cur
            cur = nxt
    raise ValueError(k)


def join(a, b):
    out = dict(a)
    for k, v in b.items():
        out[k] = out.get(k, frozenset()) | v
    return {k: v for k, v in out.items()}


class World:
    def __init__(self, repo):
        ex = E.Extractor(repo)
        self.funcs, self.byname = ex.funcs, ex.byname
        self.sig, self.cls, self.scalar = {}, {}, {}
        for key, (m, fn) in self.funcs.items():
            a = fn.args
            ps = [p.arg for p in a.posonlyargs + a.args]
            deco = {getattr(d, "id", getattr(d, "attr", None)) for d in fn.decorator_list}
            is_method = bool(ps) and ps[0] == "self" and "staticmethod" not in deco
            pos_all = a.posonlyargs + a.args
            dflt = dict(zip([p.arg for p in pos_all[len(pos_all) - len(a.defaults):]], a.defaults))
            dflt.update({p.arg: d for p, d in zip(a.kwonlyargs, a.kw_defaults) if d is not None})
            self.scalar[key] = {p for p, d in dflt.items() if (isinstance(d, ast.Constant) and isinstance(d.value, (int, float, str, bool)) and d.value is not None)
                                or (isinstance(d, ast.UnaryOp) and isinstance(d.operand, ast.Constant))}
            self.sig[key] = (ps + [p.arg for p in a.kwonlyargs], a.vararg.arg if a.vararg else None,
                             a.kwarg.arg if a.kwarg else None, is_method)
        self.writes = {k: set() for k in self.funcs}
        self.returns = {k: set() for k in self.funcs}
        self.bodies = {}

    def params(self, key):
        """the parameters that may hold a mutable object: all but those whose default is a number / string / bool
        literal (an immutable value by declaration)"""
        ps, va, kw, _m = self.sig[key]
        return [p for p in ps if p not in self.scalar[key]] + [x for x in (va, kw) if x]

    def solve(self):
        for _round in range(40):
            changed = False
            for key in self.funcs:
                t = Body(self, key).build()
                self.bodies[key] = t
                W, R = set(), set()
                analyse(t, {p: frozenset([p]) for p in self.params(key)}, W, R)
                if not W <= self.writes[key] or not R <= self.returns[key]:
                    self.writes[key] |= W
                    self.returns[key] |= R
                    changed = True
            if not changed:
                return
        raise RuntimeError("summaries did not stabilise")


def is_entry(key):
    parts = key.split(".")
    fn = parts[-1]
    if fn.startswith("_") and not (fn.startswith("__") and fn.endswith("__")):
        return False
    if len(parts) >= 2 and parts[-2] in ARRAY_CLASSES:
        return fn not in ("__init__",)
    if any(key.startswith(m + ".") for m in PLOT_MODULES):
        return False
    return fn.startswith("do_") or fn.startswith("export_")


def names_of(t, acc):
    if t[0] == "bind":
        for x in [t[1]] + list(t[2]):
            if x not in acc:
                acc.append(x)
    elif t[0] == "use":
        for x in t[2]:
            if x not in acc:
                acc.append(x)
    else:
        for c in t[1:]:
            if isinstance(c, tuple):
                names_of(c, acc)
    return acc


def to_lean(t, ix):
    k = t[0]
    if k == "nop":
        return ".nop"
    if k == "bind":
        return ".bind %d [%s]" % (ix[t[1]], ", ".join(str(ix[y]) for y in t[2]))
    if k == "use":
        return ".use .%s [%s]" % (t[1], ", ".join(str(ix[y]) for y in t[2]))
    if k == "star":
        return ".star (%s)" % to_lean(t[1], ix)
    return ".%s (%s) (%s)" % (k, to_lean(t[1], ix), to_lean(t[2], ix))


def has_use(t):
    return t[0] == "use" or any(has_use(c) for c in t[1:] if isinstance(c, tuple))


def extract(repo, o):
    w = World(repo)
    w.solve()
    o.lines.append("open CnvVerif.Alias")
    rows, inplace, entry_writes = [], [], []
    for key in sorted(w.funcs):
        t = w.bodies[key]
        entry = is_entry(key)
        if not entry and not has_use(t):
            continue   # binds only: nothing is written or returned, nothing to check
        ps = w.params(key)
        names = names_of(t, list(ps))
        ix = {n: i for i, n in enumerate(names)}
        wr = [p for p in ps if p in w.writes[key]]
        rt = [p for p in ps if p in w.returns[key]]
        dn = "FN_" + "".join(c if c.isalnum() else "_" for c in key)
        o.lines.append("/-- %s(%s); names: %s -/" % (key, ", ".join(ps), ", ".join("%d=%s" % (i, n) for i, n in enumerate(names))))
        o.lines.append("def %s : Fn := { name := %s, entry := %s, isMethod := %s, params := [%s], paramNames := [%s], writes := [%s], returns := [%s], body := %s }" % (
            dn, lstr(key), "true" if entry else "false", "true" if (w.sig[key][3] and ps[:1] == ["self"]) else "false",
            ", ".join(str(ix[p]) for p in ps),
            ", ".join("(%s, %s)" % (lstr(p), ("some %d" % ix[p]) if p in ix and p in ps else "none")
                      for p in w.sig[key][0] + [x for x in w.sig[key][1:3] if x]),
            ", ".join(str(ix[p]) for p in wr), ", ".join(str(ix[p]) for p in rt), to_lean(t, ix)))
        o.info[dn] = key
        rows.append(dn)
        if entry and "self" in wr:
            inplace.append(key)
        if entry and [p for p in wr if p != "self"]:
            entry_writes.append((key, [p for p in wr if p != "self"]))
    # chunks keep each `decide` small
    chunks = [rows[i:i + 40] for i in range(0, len(rows), 40)]
    for i, c in enumerate(chunks):
        o.defn("ALIAS_TABLE_%d" % i, "List Fn", "[" + ", ".join(c) + "]")
    o.defn("ALIAS_CHUNKS", "List (List Fn)", "[" + ", ".join("ALIAS_TABLE_%d" % i for i in range(len(chunks))) + "]",
           "every function of cnvlib/skgenome that writes in place or returns an object it did not create, and every pipeline step / public array method")
    o.defn("EXEMPT_SELF_WRITERS", "List String", "[" + ", ".join(lstr(k) for k in EXEMPT_SELF_WRITERS) + "]",
           "methods whose write to `self` is read as value-preserving at their call sites (reading rule of the extractor)")
    o.defn("IN_PLACE_METHODS", "List String", "[" + ", ".join(lstr(k) for k in inplace) + "]",
           "pipeline steps / public array methods whose summary writes `self`")
    o.defn("ENTRY_POINTS_WRITING_AN_ARGUMENT", "List (String × List String)",
           "[" + ", ".join("(%s, [%s])" % (lstr(k), ", ".join(lstr(p) for p in ps)) for k, ps in entry_writes) + "]",
           "pipeline steps / public array methods whose summary writes a parameter other than `self`")
