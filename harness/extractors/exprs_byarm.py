"""Source expressions of `GenomicArray.by_arm` -> Generated/ExprsByArm.lean (see harness/exprtrans.py, "Fragments").
Props/C03Src.lean proves that the model's centromere choice (`cmereIdx`, Model/Tile.lean) is these pieces put
together, so an edit to the margin, the admissible window, the index arithmetic or the acceptance test in /repo
changes a generated term and breaks that proof obligation."""
import ast

from ..exprtrans import emit_fragments
from ..translate import func_defaults, rat

NAME = "ExprsByArm"
PATH, FUNC, CLS = "skgenome/gary.py", "by_arm", "GenomicArray"
SPECS = [
    ("src_by_arm_margin", "assign", "margin", 0, False, "by_arm: `margin = ...` with len(subtable) = subtable_len"),
    ("src_by_arm_candidate", "iftest", "gaps", 0, True, "by_arm: the test guarding the centromere search"),
    ("src_by_arm_starts_lo", "slice_lo", "gaps", 0, True, "by_arm: lower bound of the first slice in `gaps = ...`"),
    ("src_by_arm_starts_hi", "slice_hi", "gaps", 0, True, "by_arm: upper bound of the first slice in `gaps = ...`"),
    ("src_by_arm_ends_lo", "slice_lo", "gaps", 1, True, "by_arm: lower bound of the second slice in `gaps = ...`"),
    ("src_by_arm_ends_hi", "slice_hi", "gaps", 1, True, "by_arm: upper bound of the second slice in `gaps = ...`"),
    ("src_by_arm_idx", "assign", "cmere_idx", 0, True, "by_arm: `cmere_idx = ...` inside the search"),
    ("src_by_arm_size_pos", "index", "cmere_size", 0, True, "by_arm: the position read from `gaps` for `cmere_size`"),
    ("src_by_arm_idx_else", "assign", "cmere_idx", 1, True, "by_arm: `cmere_idx` when no search is made"),
    ("src_by_arm_accept", "iftest", "p_arm", 0, True, "by_arm: the test deciding that the chromosome is split"),
    ("src_by_arm_p_hi", "slice_hi", "p_arm", 0, True, "by_arm: the p arm is `index[:this]`"),
    ("src_by_arm_q_lo", "slice_lo", "q_arm", 0, True, "by_arm: the q arm is `index[this:]`"),
]


def _roles(repo):
    """the local names playing the six roles, found by shape (so that renaming a local keeps the tie): `gaps` = target of
    the first assignment holding two slices; `margin` = the plain name that is the lower bound of its second slice;
    `cmere_idx` = target of the first assignment calling `.argmax()`; `cmere_size` = target of the first assignment
    reading one element of `gaps`; `p_arm` / `q_arm` = targets of the first assignments slicing `[:x]` / `[x:]`"""
    import os
    from ..translate import parse, find_func
    roles = {}
    try:
        tree, _ = parse(os.path.join(repo, PATH))
        fn = find_func(tree, FUNC, CLS)
    except Exception:
        return roles
    assigns = sorted((n for n in ast.walk(fn) if isinstance(n, ast.Assign) and len(n.targets) == 1
                      and isinstance(n.targets[0], ast.Name)), key=lambda n: (n.lineno, n.col_offset))

    def slices(v):
        return sorted((x for x in ast.walk(v) if isinstance(x, ast.Subscript) and isinstance(x.slice, ast.Slice)),
                      key=lambda x: (x.lineno, x.col_offset))
    for a in assigns:
        sl = slices(a.value)
        t = a.targets[0].id
        if "gaps" not in roles and len(sl) == 2:
            roles["gaps"] = t
            if isinstance(sl[1].slice.lower, ast.Name):
                roles["margin"] = sl[1].slice.lower.id
        elif "cmere_idx" not in roles and any(isinstance(c, ast.Call) and isinstance(c.func, ast.Attribute)
                                              and c.func.attr == "argmax" for c in ast.walk(a.value)):
            roles["cmere_idx"] = t
        elif "cmere_size" not in roles and isinstance(a.value, ast.Subscript) and not isinstance(a.value.slice, ast.Slice) \
                and isinstance(a.value.value, ast.Name) and a.value.value.id == roles.get("gaps"):
            roles["cmere_size"] = t
        elif len(sl) == 1 and isinstance(a.value, ast.Subscript) and a.value is sl[0]:
            if "p_arm" not in roles and sl[0].slice.lower is None and sl[0].slice.upper is not None:
                roles["p_arm"] = t
            elif "q_arm" not in roles and sl[0].slice.upper is None and sl[0].slice.lower is not None:
                roles["q_arm"] = t
    return roles


def extract(repo, o):
    roles = _roles(repo)
    specs = [(lean, kind, roles.get(name, name), k, as_int, comment) for lean, kind, name, k, as_int, comment in SPECS]
    rename = {actual: role for role, actual in roles.items()}
    fn = emit_fragments(repo, o, PATH, FUNC, CLS, specs, rename=rename, keep=tuple(roles.values()) or
                        ("margin", "gaps", "cmere_idx", "cmere_size", "p_arm", "q_arm"))
    if fn is None:
        return
    gaps_name = roles.get("gaps", "gaps")
    # which columns the gaps are taken between: `subtable.<a>.values[...] - subtable.<b>.values[...]`
    cols = []
    for n in ast.walk(fn):
        if isinstance(n, ast.Assign) and len(n.targets) == 1 and isinstance(n.targets[0], ast.Name) \
                and n.targets[0].id == gaps_name and isinstance(n.value, ast.BinOp) and isinstance(n.value.op, ast.Sub):
            for side in (n.value.left, n.value.right):
                names = [a.attr for a in ast.walk(side) if isinstance(a, ast.Attribute) and a.attr in ("start", "end")]
                cols.append(names[0] if len(names) == 1 else "?")
    if len(cols) == 2:
        o.defn("src_by_arm_gap_columns", "String × String", f'("{cols[0]}", "{cols[1]}")',
               "by_arm: gaps = <first>[...] - <second>[...]")
    else:
        o.lines.append("-- NOT TRANSLATED: by_arm: `gaps = a[...] - b[...]` not found")
    d = func_defaults(fn)
    for k in ("min_gap_size", "min_arm_bins"):
        if isinstance(d.get(k), (int, float)):
            o.defn("src_by_arm_default_" + k, "Rat", rat(d[k]), f"by_arm: default of `{k}`")
        else:
            o.lines.append(f"-- NOT TRANSLATED: by_arm: default of `{k}`")
