"""Source expressions of `GenomicArray.by_arm` -> Generated/ExprsByArm.lean (see harness/exprtrans.py, "Fragments").
Props/C03Src.lean proves that the model's centromere choice (`cmereIdx`, Model/Tile.lean) is these pieces put
together, so an edit to the margin, the admissible window, the index arithmetic or the acceptance test in /repo
changes a generated term and breaks that proof obligation."""
import ast

from ..exprtrans import emit_fragments
from ..translate import func_defaults, rat

NAME = "ExprsByArm"
PATH, FUNC, CLS = "skgenome/gary.py", "by_arm", "GenomicArray"
SPECS = [
    ("src_by_arm_margin", "assign", "margin", 0, False, "by_arm: `margin = ...` with len(subtable) = subtable_len"),
    ("src_by_arm_candidate", "iftest", "gaps", 0, True, "by_arm: the test guarding the centromere search"),
    ("src_by_arm_starts_lo", "slice_lo", "gaps", 0, True, "by_arm: lower bound of the first slice in `gaps = ...`"),
    ("src_by_arm_starts_hi", "slice_hi", "gaps", 0, True, "by_arm: upper bound of the first slice in `gaps = ...`"),
    ("src_by_arm_ends_lo", "slice_lo", "gaps", 1, True, "by_arm: lower bound of the second slice in `gaps = ...`"),
    ("src_by_arm_ends_hi", "slice_hi", "gaps", 1, True, "by_arm: upper bound of the second slice in `gaps = ...`"),
    ("src_by_arm_idx", "assign", "cmere_idx", 0, True, "by_arm: `cmere_idx = ...` inside the search"),
    ("src_by_arm_size_pos", "index", "cmere_size", 0, True, "by_arm: the position read from `gaps` for `cmere_size`"),
    ("src_by_arm_idx_else", "assign", "cmere_idx", 1, True, "by_arm: `cmere_idx` when no search is made"),
    ("src_by_arm_accept", "iftest", "p_arm", 0, True, "by_arm: the test deciding that the chromosome is split"),
    ("src_by_arm_p_hi", "slice_hi", "p_arm", 0, True, "by_arm: the p arm is `index[:this]`"),
    ("src_by_arm_q_lo", "slice_lo", "q_arm", 0, True, "by_arm: the q arm is `index[this:]`"),
]


def extract(repo, o):
    fn = emit_fragments(repo, o, PATH, FUNC, CLS, SPECS)
    if fn is None:
        return
    # which columns the gaps are taken between: `subtable.<a>.values[...] - subtable.<b>.values[...]`
    cols = []
    for n in ast.walk(fn):
        if isinstance(n, ast.Assign) and len(n.targets) == 1 and isinstance(n.targets[0], ast.Name) \
                and n.targets[0].id == "gaps" and isinstance(n.value, ast.BinOp) and isinstance(n.value.op, ast.Sub):
            for side in (n.value.left, n.value.right):
                names = [a.attr for a in ast.walk(side) if isinstance(a, ast.Attribute) and a.attr in ("start", "end")]
                cols.append(names[0] if len(names) == 1 else "?")
    if len(cols) == 2:
        o.defn("src_by_arm_gap_columns", "String × String", f'("{cols[0]}", "{cols[1]}")',
               "by_arm: gaps = <first>[...] - <second>[...]")
    else:
        o.lines.append("-- NOT TRANSLATED: by_arm: `gaps = a[...] - b[...]` not found")
    d = func_defaults(fn)
    for k in ("min_gap_size", "min_arm_bins"):
        if isinstance(d.get(k), (int, float)):
            o.defn("src_by_arm_default_" + k, "Rat", rat(d[k]), f"by_arm: default of `{k}`")
        else:
            o.lines.append(f"-- NOT TRANSLATED: by_arm: default of `{k}`")
