"""`cnvlib/antitarget.py:guess_chromosome_regions` -> Generated/ExprsGuess.lean (round 5c).

Props/C12SrcGuess.lean proves that the hand model `guessRegions` IS the generated `src_guess_chromosome_regions` applied
to the telomere allowance that `get_antitargets` hands over, for EVERY target table.

Reading rules (part of the trusted base; everything else raises, so that an edit this reader does not understand is
reported, not guessed):

* the body is a sequence of single-target assignments to fresh locals followed by `return <local>`;
* a value is one of
    - `[<sub>.<col>.iat[K] for <_>, <sub> in <tbl>.by_chromosome()]` with K = -1 / 0 and <col> = end / start:
      `GenomicArray.by_chromosome` yields (name, sub-table) in order of FIRST APPEARANCE of the name, the sub-table = the
      rows of that name in table order (`groupByChrom` of Basic.lean); `.iat[-1]` / `.iat[0]` = last / first entry of the
      column.  Any other iterable (`groupby`, `sorted(...)`, `reversed(...)`, a filter clause) is not read;
    - `<tbl>.chromosome.drop_duplicates()`: the names in order of first appearance (`List.eraseDups` of the column);
    - `GA.from_columns({"chromosome": <list>, "start": <scalar or list>, "end": <scalar or list>})`: the columns are
      combined POSITIONALLY (pandas aligns a Series and a plain list by position; a scalar is broadcast); the keys must
      be exactly these three; `gene` is left empty as in the model's `Row`;
    - a parameter of the function (a scalar Int) or an earlier local.
"""
import ast
import os
from ..translate import find_func

NAME = "ExprsGuess"
IMPORTS = ["CnvVerif.Basic"]
SRC = "cnvlib/antitarget.py"
COLS = {"end": "e", "start": "s"}


class _R:
    def __init__(self, tbl, scalars):
        self.tbl, self.scalars, self.locals = tbl, scalars, {}

    def table(self, n):
        if isinstance(n, ast.Name) and n.id == self.tbl:
            return n.id
        raise ValueError(f"not the table parameter: {ast.unparse(n)}")

    def value(self, n):
        """-> (kind, lean) with kind in list-str / list-int / scalar / table"""
        if isinstance(n, ast.Name):
            if n.id in self.locals:
                return self.locals[n.id][0], n.id
            if n.id in self.scalars:
                return "scalar", n.id
            raise ValueError(f"unknown name {n.id}")
        if isinstance(n, ast.Constant) and isinstance(n.value, int) and not isinstance(n.value, bool):
            return "scalar", f"({n.value} : Int)"
        if isinstance(n, ast.ListComp):
            return "list-int", self.listcomp(n)
        if isinstance(n, ast.Call) and isinstance(n.func, ast.Attribute):
            f = n.func
            if f.attr == "drop_duplicates" and not n.args and not n.keywords and isinstance(f.value, ast.Attribute) \
                    and f.value.attr == "chromosome":
                return "list-str", f"(({self.table(f.value.value)}.map (·.chrom)).eraseDups)"
            if f.attr == "from_columns" and len(n.args) == 1 and not n.keywords and isinstance(n.args[0], ast.Dict):
                return "table", self.from_columns(n.args[0])
        raise ValueError(f"unread value: {ast.unparse(n)}")

    def listcomp(self, n):
        if len(n.generators) != 1:
            raise ValueError("one generator expected")
        g = n.generators[0]
        if g.ifs or g.is_async:
            raise ValueError("filter clause in the comprehension")
        it = g.iter
        if not (isinstance(it, ast.Call) and isinstance(it.func, ast.Attribute) and it.func.attr == "by_chromosome"
                and not it.args and not it.keywords):
            raise ValueError(f"the comprehension must run over <targets>.by_chromosome(), found {ast.unparse(it)}")
        tbl = self.table(it.func.value)
        if not (isinstance(g.target, ast.Tuple) and len(g.target.elts) == 2
                and all(isinstance(e, ast.Name) for e in g.target.elts)):
            raise ValueError("`for <name>, <sub> in ...` expected")
        sub = g.target.elts[1].id
        e = n.elt
        # <sub>.<col>.iat[K]
        if not (isinstance(e, ast.Subscript) and isinstance(e.value, ast.Attribute) and e.value.attr == "iat"
                and isinstance(e.value.value, ast.Attribute) and isinstance(e.value.value.value, ast.Name)
                and e.value.value.value.id == sub and e.value.value.attr in COLS):
            raise ValueError(f"`<sub>.end.iat[-1]` expected, found {ast.unparse(e)}")
        try:
            k = ast.literal_eval(e.slice)
        except Exception:
            raise ValueError(f"literal position expected in {ast.unparse(e)}")
        if k not in (-1, 0):
            raise ValueError(f"position {k!r} not read")
        pick = "getLast?" if k == -1 else "head?"
        col = COLS[e.value.value.attr]
        return f"((groupByChrom {tbl}).map (fun g => (((g.2.map (·.{col})).{pick}).getD 0)))"

    def from_columns(self, d):
        keys = []
        for k in d.keys:
            if not (isinstance(k, ast.Constant) and isinstance(k.value, str)):
                raise ValueError("from_columns: literal keys expected")
            keys.append(k.value)
        if sorted(keys) != ["chromosome", "end", "start"]:
            raise ValueError(f"from_columns: keys {keys}")
        col = {k: self.value(v) for k, v in zip(keys, d.values)}
        if col["chromosome"][0] != "list-str":
            raise ValueError("from_columns: chromosome must be a list of names")
        names = col["chromosome"][1]

        def at(k, var):
            kind, lean = col[k]
            if kind == "scalar":
                return None, lean
            if kind == "list-int":
                return lean, var
            raise ValueError(f"from_columns: {k} is a {kind}")
        ls, s = at("start", "s_")
        le, e = at("end", "e_")
        if ls is None and le is None:
            return f"({names}.map (fun c_ => ({{ chrom := c_, s := {s}, e := {e}, gene := \"\" }} : Row)))"
        if ls is None or le is None:
            other, var = (le, "e_") if ls is None else (ls, "s_")
            return (f"(List.zipWith (fun c_ {var} => ({{ chrom := c_, s := {s}, e := {e}, gene := \"\" }} : Row)) "
                    f"{names} {other})")
        return (f"(List.zipWith (fun c_ se_ => ({{ chrom := c_, s := se_.1, e := se_.2, gene := \"\" }} : Row)) "
                f"{names} (List.zip {ls} {le}))")


def extract(repo, o):
    o.lines.append("set_option linter.unusedVariables false\nopen CnvVerif\n")
    src = open(os.path.join(repo, SRC)).read()
    fn = find_func(ast.parse(src), "guess_chromosome_regions")
    args = [a.arg for a in fn.args.args]
    if len(args) != 2 or fn.args.defaults or fn.args.vararg or fn.args.kwarg or fn.args.kwonlyargs:
        raise ValueError(f"guess_chromosome_regions: parameters {args}")
    r = _R(args[0], {args[1]})
    body = [s for s in fn.body if not (isinstance(s, ast.Expr) and isinstance(s.value, ast.Constant))]
    lets, ret = [], None
    ty = {"list-int": "List Int", "list-str": "List String", "table": "Table", "scalar": "Int"}
    for s in body:
        if isinstance(s, ast.Assign) and len(s.targets) == 1 and isinstance(s.targets[0], ast.Name) and ret is None:
            name = s.targets[0].id
            if name in r.locals or name in args:
                raise ValueError(f"{name} is assigned twice")
            kind, lean = r.value(s.value)
            r.locals[name] = (kind, lean)
            lets.append(f"  let {name} : {ty[kind]} := {lean}")
        elif isinstance(s, ast.Return) and ret is None and s.value is not None:
            kind, ret = r.value(s.value)
            if kind != "table":
                raise ValueError("a table is returned")
        else:
            raise ValueError(f"unread statement: {ast.unparse(s)}")
    if ret is None:
        raise ValueError("no return")
    o.lines.append("/-- antitarget.guess_chromosome_regions(targets, telomere_size), statement by statement -/")
    o.lines.append(f"def src_guess_chromosome_regions ({args[0]} : Table) ({args[1]} : Int) : Table :=")
    o.lines.extend(lets)
    o.lines.append(f"  {ret}")
    o.info["src_guess_chromosome_regions"] = "\n".join(lets + [ret])
