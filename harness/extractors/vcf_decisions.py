"""Record-level decisions of skgenome/tabio/vcfio.py -> Generated/VcfDecisions.lean (see harness/dectrans.py for the reading).

`_extract_genotype` answers three questions per sample column of a record -- where the depth comes from, which zygosity the
genotype means, where the alt-allele count comes from (`_get_alt_count`).  The ORDER in which the sources are tried and the way
the conditions are combined are re-read from the source on every run; the conditions and sources themselves are the
vocabulary below (source text -> name).  Props/C18SrcGeno.lean proves that the model's `depthOf`, `zygosityOf`, `altCountOf`
and `safesum` are these decision structures under the stated reading of each atom on the model's data."""
import os

from ..dectrans import emit_decision

NAME = "VcfDecisions"
PATH = "skgenome/tabio/vcfio.py"

DEPTH_ATOMS = [("'DP' in sample", "hasDP"), ("'AD' in sample", "hasAD"),
               ("isinstance(sample['AD'], tuple)", "adIsTuple"), ("'DP' in record.info", "infoHasDP")]
DEPTH_LEAVES = [("sample['DP']", "DepthSrc.sampleDP"), ("_safesum(sample['AD'])", "DepthSrc.sumAD"),
                ("record.info['DP']", "DepthSrc.infoDP"), ("np.nan", "DepthSrc.missing")]
ZYG_ATOMS = [("len(set(sample['GT'])) > 1", "severalAlleles"), ("set(sample['GT']).pop() == 0", "onlyAlleleIsRef")]
ALT_ATOMS = [("sample.get('AD') not in (None, (None,))", "adGiven"), ("isinstance(sample['AD'], tuple)", "adIsTuple"),
             ("len(sample['AD']) > 1", "adHasSecond"), ("sample.get('CLCAD2') not in (None, (None,))", "clcGiven"),
             ("'AO' in sample", "hasAO"), ("isinstance(sample['AO'], tuple)", "aoIsTuple"), ("sample['AO']", "aoTruthy")]
ALT_LEAVES = [("sample['AD'][1]", "AltSrc.adSecond"), ("0.0", "AltSrc.zero"), ("0", "AltSrc.zero"),
              ("sample['AD']", "AltSrc.adScalar"), ("sample['CLCAD2'][1]", "AltSrc.clcSecond"),
              ("_safesum(sample['AO'])", "AltSrc.sumAO"), ("sample['AO']", "AltSrc.aoScalar"), ("np.nan", "AltSrc.missing")]
SUM_LEAVES = [("sum(filter(None, tup))", "SumSrc.sumOfTruthy")]


def _inductive(o, name, leaves, doc):
    ctors = []
    for _t, c in leaves:
        c = c.split(".")[-1]
        if c not in ctors:
            ctors.append(c)
    o.lines.append(f"/-- {doc} -/")
    o.lines.append(f"inductive {name} | " + " | ".join(ctors) + "\n  deriving DecidableEq, Repr")


def extract(repo, o):
    from ..translate import parse
    tree, _src = parse(os.path.join(repo, PATH))
    _inductive(o, "DepthSrc", DEPTH_LEAVES, "where `_extract_genotype` takes a sample's depth from")
    _inductive(o, "AltSrc", ALT_LEAVES, "where `_get_alt_count` takes a sample's alt-allele count from")
    _inductive(o, "SumSrc", SUM_LEAVES, "what `_safesum` computes")
    emit_decision(o, tree, "_extract_genotype", "src_extract_genotype_depth", DEPTH_ATOMS, DEPTH_LEAVES, "DepthSrc", result=0,
                  comment="vcfio._extract_genotype: the source of `depth`", where=PATH)
    emit_decision(o, tree, "_extract_genotype", "src_extract_genotype_zygosity", ZYG_ATOMS, [], "Rat", result=1, numeric=True,
                  comment="vcfio._extract_genotype: `zygosity` from the set of alleles the genotype names", where=PATH)
    emit_decision(o, tree, "_extract_genotype", "src_extract_genotype_alt_count", ALT_ATOMS, ALT_LEAVES, "AltSrc", result=2,
                  comment="vcfio._extract_genotype: the source of `alt_count` (= _get_alt_count(sample))", where=PATH)
    emit_decision(o, tree, "_safesum", "src_safesum", [], SUM_LEAVES, "SumSrc",
                  comment="vcfio._safesum", where=PATH)
