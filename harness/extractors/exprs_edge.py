"""Source expressions -> Generated/ExprsEdge.lean (see harness/exprtrans.py for the reading of the Python subset).
Props prove that the hand-written model functions equal these generated ones, so an edit to a formula in /repo
changes the generated term and breaks that proof obligation."""
from ..exprtrans import emit

NAME = "ExprsEdge"
SPECS = [
    ("cnvlib/fix.py", "edge_losses", "src_edge_losses", {}, "fix.edge_losses, one element"),
    ("cnvlib/fix.py", "edge_gains", "src_edge_gains", {}, "fix.edge_gains, one element (the gap guard is a precondition)"),
]


def extract(repo, o):
    emit(repo, o, SPECS)
