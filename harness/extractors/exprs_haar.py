"""Source expressions -> Generated/ExprsHaar.lean: ONE iteration of the `for k in range(1, signalSize)` loop of
`haar.HaarConv` (see the loop-body reading rules at the top of harness/exprtrans.py).

* the two index expressions with their mirror rules (`highEnd`, `lowEnd`), as integer functions of `k`, the half-window
  and the signal length;
* the unweighted update `result[k]`;
* the four running sums of the weighted branch and the value it stores.

Props/C11Src.lean proves that the model's `hiIdx` / `loIdx` / `rawUpdate` / `wStep` / `wValue` ARE these expressions."""
from ..exprtrans import emit_loop

NAME = "ExprsHaar"
F = "cnvlib/segmentation/haar.py"
SPECS = [
    (F, "HaarConv", "k", "highEnd", "src_haarconv_highEnd", {"typ": "Int"},
     "HaarConv, one iteration: the index `highEnd` (mirrored at the right end)"),
    (F, "HaarConv", "k", "lowEnd", "src_haarconv_lowEnd", {"typ": "Int"},
     "HaarConv, one iteration: the index `lowEnd` (mirrored at the left end)"),
    (F, "HaarConv", "k", "result[k]", "src_haarconv_result_unweighted", {"absent": ["weight"]},
     "HaarConv, weight is None: the value stored at k (before the final normalisation)"),
    (F, "HaarConv", "k", "lowNonNormed", "src_haarconv_lowNonNormed", {"given": ["weight"]},
     "HaarConv, weighted: running sum lowNonNormed after the iteration"),
    (F, "HaarConv", "k", "highNonNormed", "src_haarconv_highNonNormed", {"given": ["weight"]},
     "HaarConv, weighted: running sum highNonNormed after the iteration"),
    (F, "HaarConv", "k", "lowWeightSum", "src_haarconv_lowWeightSum", {"given": ["weight"]},
     "HaarConv, weighted: running sum lowWeightSum after the iteration"),
    (F, "HaarConv", "k", "highWeightSum", "src_haarconv_highWeightSum", {"given": ["weight"]},
     "HaarConv, weighted: running sum highWeightSum after the iteration"),
    (F, "HaarConv", "k", "result[k]", "src_haarconv_result_weighted", {"given": ["weight"]},
     "HaarConv, weighted: the value stored at k; sqrt_stepHalfSize_2 is the double math.sqrt(stepHalfSize / 2)"),
]


def extract(repo, o):
    emit_loop(repo, o, SPECS)
