"""Source bodies -> Generated/ExprsExport.lean (C20; see the ROW-wise half of harness/exprtrans.py for the reading).

* export.segments2vcf   -> src_segments2vcf_row   : the cells of the VCF record one segment yields, or none
* export.export_bed     -> src_export_bed_row     : the cells of the BED row one segment yields, or none
* cmdutil.verify_sample_sex -> src_export_verify_sample_sex : the sample sex the export commands hand to the exporters
* commands._cmd_export_bed (the if-chain binding `label`) -> src_cmd_export_bed_label

Props/C20Src.lean proves that the hand-written model functions (Model/Export.lean, Model/ExportExt.lean) equal these
for all arguments, so an edit to a comparison, a sign, a replaced coordinate, a field or the order of the decisions
in /repo changes the generated term and breaks that obligation."""
from ..exprtrans import emit_rows

NAME = "ExprsExport"
IMPORTS = ["CnvVerif.Model.Call", "CnvVerif.Model.PyRow"]

SEG_COLS = {"chromosome": "S", "start": "I", "end": "I", "gene": "S", "log2": "Q", "probes": "I", "cn": "I"}
EXPECT_ARGS = ["segments", "ploidy", "diploid_parx_genome", "is_sample_female"]
CLONAL_ARGS = ["segments", "ploidy", "1.0", "is_haploid_x_reference", "diploid_parx_genome", "is_sample_female"]

SPECS = [
    ("cnvlib/export.py", "segments2vcf", "src_segments2vcf_row", {
        "tables": {"segments": SEG_COLS},
        "absent": {"ci_left", "ci_right"},
        "opaque": {
            "call.absolute_expect": ("col", "I", "absolute_expect", EXPECT_ARGS),
            "call.absolute_dataframe": ("frame", {"absolute": ("Q", "absolute"), "expect": ("I", "expect")}, CLONAL_ARGS),
        },
        "sig": [("has_cn", "Bool"), ("chromosome", "String"), ("start", "Int"), ("end_", "Int"), ("log2", "Rat"),
                ("log2_pow2", "Rat"), ("probes", "Int"), ("probes_isdigit", "Bool"), ("cn", "Int"),
                ("absolute_expect", "Int"), ("absolute", "Rat"), ("expect", "Int"), ("fmt_float", "Rat → String")],
     }, "export.segments2vcf for ONE segment without confidence-limit columns: the ten cells of its record, or none. "
        "absolute_expect = call.absolute_expect(...), (absolute, expect) = the columns of call.absolute_dataframe(..., "
        "purity 1.0, ...) (C01's subject); log2_pow2 = 2.0 ** log2; probes_isdigit = str(probes).isdigit(); fmt_float = "
        "Python's formatting of a float inside an f-string"),
    ("cnvlib/export.py", "export_bed", "src_export_bed_row", {
        "tables": {"segments": SEG_COLS},
        "scalars": {"label": "S", "show": "S", "ploidy": "I"},
        "opaque": {
            "call.absolute_expect": ("col", "I", "absolute_expect", EXPECT_ARGS),
            "call.absolute_clonal": ("col", "Q", "absolute_clonal", CLONAL_ARGS),
        },
        "sig": [("has_cn", "Bool"), ("chromosome", "String"), ("start", "Int"), ("end_", "Int"), ("gene", "String"),
                ("cn", "Int"), ("label", "String"), ("show_", "String"), ("ploidy", "Int"),
                ("absolute_clonal", "Rat"), ("absolute_expect", "Int")],
     }, "export.export_bed for ONE segment: the five cells of its row, or none when `show` drops it. label: None is read "
        "as the empty string; absolute_clonal = call.absolute_clonal(..., purity 1.0, ...), absolute_expect = "
        "call.absolute_expect(...)"),
    ("cnvlib/cmdutil.py", "verify_sample_sex", "src_export_verify_sample_sex", {
        "scalars": {"sex_arg": "S"},
        "opaque": {".guess_xx": ("col", "B", "guess_xx", ["is_haploid_x_reference", "diploid_parx_genome", "verbose=False"])},
        "sig": [("guess_xx", "Bool"), ("sex_arg", "String")],
        "result": "bool",
     }, "cmdutil.verify_sample_sex: guess_xx = cnarr.guess_xx(...) (C15's subject; None read as False), sex_arg: None "
        "read as the empty string"),
    ("cnvlib/commands.py", "_cmd_export_bed", "src_cmd_export_bed_label", {
        "scalars": {"args.sample_id": "S", "args.label_genes": "B", "segments.sample_id": "S"},
        "sig": [("args_sample_id", "String"), ("args_label_genes", "Bool"), ("segments_sample_id", "String")],
        "result": "str",
        "fragment": "label",
     }, "commands._cmd_export_bed: the if-chain that chooses the `label` handed to export_bed (None read as the empty "
        "string: export_bed only tests its truthiness)"),
]


def _sex_choices(repo, o):
    """the spellings argparse accepts under -x / --sample-sex of `export bed` and `export vcf` (they must agree)"""
    import ast
    import os
    from ..translate import parse, lstr
    tree, _src = parse(os.path.join(repo, "cnvlib/commands.py"))
    found = {}
    for n in ast.walk(tree):
        if isinstance(n, ast.Call) and isinstance(n.func, ast.Attribute) and n.func.attr == "add_argument" \
                and isinstance(n.func.value, ast.Name) and n.func.value.id in ("P_export_bed", "P_export_vcf") \
                and any(isinstance(a, ast.Constant) and a.value == "--sample-sex" for a in n.args):
            ch = [k.value for k in n.keywords if k.arg == "choices"]
            found[n.func.value.id] = list(ast.literal_eval(ch[0])) if ch else None
    if set(found) != {"P_export_bed", "P_export_vcf"} or found["P_export_bed"] != found["P_export_vcf"] \
            or not found["P_export_bed"]:
        raise ValueError(f"--sample-sex choices of export bed / export vcf: {found}")
    o.defn("EXPORT_SEX_CHOICES", "List String", "[" + ", ".join(lstr(x) for x in found["P_export_bed"]) + "]",
           "commands.py: `choices=` of -x / --sample-sex / -g / --gender of `export bed` and `export vcf`")


def extract(repo, o):
    emit_rows(repo, o, SPECS)
    _sex_choices(repo, o)
