"""Body of the keeper loop of `skgenome/subtract.py:_subtraction` -> Generated/ExprsSubLoop.lean (C06).

See harness/subloop.py for the reading rules: the `keep_left` / `keep_right` tests, the four `np.r_` assemblies of
`starts` / `ends` (and the fifth case, `continue`), the `for start, end in zip(starts, ends)` loop with its `end > start`
test, `yield keeper` for a keeper without excluded rows, and what the loop runs over.  Props/C06SrcSubLoop.lean proves
that `subtractRow` / `subtractTable` of Model/Interval.lean EQUAL this reading."""
from ..subloop import emit_body

NAME = "ExprsSubLoop"


def extract(repo, o):
    o.lines.append("set_option linter.unusedVariables false\n")
    emit_body(repo, o, "skgenome/subtract.py", "_subtraction", "src_subloop")
