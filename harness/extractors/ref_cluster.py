"""cnvlib/reference.py `create_clusters` / `summarize_info` structure -> Generated/RefClusterConsts.lean (C05, round 5).

Reading rules (part of the trusted base; everything is found by SHAPE, local names are free):
 * the sample matrix is the first parameter of `create_clusters`; the one re-assignment `m = m[<lo>:, :]` (or
   `m[<lo>:]`) before the loop gives REFCL_DROP_ROWS = lo (0 when there is none): the pseudo-sample rows dropped;
 * the loop `for i, idx in enumerate(<clusters>[, start])`: REFCL_LABEL_OFFSET = start + the constants added to `i` by
   top-level `i += c` statements of the loop body (the number a cluster's columns carry = position + offset);
 * the `if <cmp>: ...; continue` of the loop body comparing `len(idx)` with the second parameter: REFCL_SKIP_TEST =
   the comparison with `len(idx)` on the left (a mirrored spelling is turned round), skipping when it holds;
 * the call `summarize_info(<rows>, <depths>)` in the loop: REFCL_SUMMARY = (callee, "member_rows" when <rows> is the
   matrix indexed by `idx` on its first axis with all columns, the text of <depths>);
 * the dictionary handed to `.update`: REFCL_COLUMNS = (prefix of the f-string key that ends in `{i}`, field of the
   summary it is read from);
 * `summarize_info`: the estimator behind the "log2" entry (`np.apply_along_axis(<f>, <axis>, <matrix>)`) and the one
   behind "spread" (the call inside the comprehension over `zip(<matrix>.T, <log2 entry>)`, its keyword fed from the
   second zip element)."""
import ast
import os
from ..translate import lstr

NAME = "RefClusterConsts"

_MIRROR = {"Lt": "Gt", "Gt": "Lt", "LtE": "GtE", "GtE": "LtE", "Eq": "Eq", "NotEq": "NotEq"}


def _func(tree, name):
    for n in tree.body:
        if isinstance(n, ast.FunctionDef) and n.name == name:
            return n
    raise ValueError(f"function {name} not found")


def _is_full(sl):
    return isinstance(sl, ast.Slice) and sl.lower is None and sl.upper is None and sl.step is None


def extract(repo, o):
    src = open(os.path.join(repo, "cnvlib/reference.py")).read()
    tree = ast.parse(src)
    fn = _func(tree, "create_clusters")
    mat, minsize = fn.args.args[0].arg, fn.args.args[1].arg
    loop = next(s for s in fn.body if isinstance(s, ast.For))
    # rows dropped before the loop
    drop = 0
    for s in fn.body[:fn.body.index(loop)]:
        if (isinstance(s, ast.Assign) and len(s.targets) == 1 and isinstance(s.targets[0], ast.Name)
                and s.targets[0].id == mat and isinstance(s.value, ast.Subscript)
                and isinstance(s.value.value, ast.Name) and s.value.value.id == mat):
            sl = s.value.slice
            if isinstance(sl, ast.Tuple):
                if len(sl.elts) != 2 or not _is_full(sl.elts[1]):
                    raise ValueError("matrix re-assignment is not a row slice: " + ast.unparse(s))
                sl = sl.elts[0]
            if not isinstance(sl, ast.Slice) or sl.upper is not None or sl.step is not None:
                raise ValueError("matrix re-assignment is not a row slice: " + ast.unparse(s))
            drop += 0 if sl.lower is None else int(ast.literal_eval(sl.lower))
    o.defn("REFCL_DROP_ROWS", "Nat", str(drop), "create_clusters: rows of the sample matrix dropped before clustering (the pseudo-sample)")
    # the loop
    it = loop.iter
    if not (isinstance(it, ast.Call) and isinstance(it.func, ast.Name) and it.func.id == "enumerate"
            and isinstance(loop.target, ast.Tuple) and len(loop.target.elts) == 2):
        raise ValueError("cluster loop is not `for i, idx in enumerate(...)`")
    ivar, idx = loop.target.elts[0].id, loop.target.elts[1].id
    off = 0
    if len(it.args) > 1:
        off = int(ast.literal_eval(it.args[1]))
    for k in it.keywords:
        if k.arg == "start":
            off = int(ast.literal_eval(k.value))
    for s in loop.body:
        if isinstance(s, ast.AugAssign) and isinstance(s.target, ast.Name) and s.target.id == ivar:
            c = int(ast.literal_eval(s.value))
            off += c if isinstance(s.op, ast.Add) else -c if isinstance(s.op, ast.Sub) else 10 ** 6
    o.defn("REFCL_LABEL_OFFSET", "Nat", str(off), "create_clusters: number of a cluster's columns = its position in kmeans' result + this")
    # the skip test
    test = None
    for s in loop.body:
        if isinstance(s, ast.If) and s.body and isinstance(s.body[-1], ast.Continue) and not s.orelse:
            t = s.test
            if isinstance(t, ast.Compare) and len(t.ops) == 1:
                l, r, op = t.left, t.comparators[0], type(t.ops[0]).__name__
                is_len = lambda e: (isinstance(e, ast.Call) and isinstance(e.func, ast.Name) and e.func.id == "len"
                                    and len(e.args) == 1 and isinstance(e.args[0], ast.Name) and e.args[0].id == idx)
                is_min = lambda e: isinstance(e, ast.Name) and e.id == minsize
                if is_len(l) and is_min(r):
                    test = op
                elif is_min(l) and is_len(r):
                    test = _MIRROR[op]
    o.defn("REFCL_SKIP_TEST", "String", lstr(test or "?"), "create_clusters: a cluster is skipped when len(members) <this> min_cluster_size")
    # the summary call and its row selection
    local = {}
    for s in loop.body:
        if isinstance(s, ast.Assign) and len(s.targets) == 1 and isinstance(s.targets[0], ast.Name):
            local[s.targets[0].id] = s.value
    call = next(n for s in loop.body for n in ast.walk(s)
                if isinstance(n, ast.Call) and isinstance(n.func, ast.Name) and n.func.id == "summarize_info")
    rows = call.args[0]
    while isinstance(rows, ast.Name) and rows.id in local:
        rows = local[rows.id]
    sel = "?" + ast.unparse(rows)
    if isinstance(rows, ast.Subscript) and isinstance(rows.value, ast.Name) and rows.value.id == mat:
        sl = rows.slice
        first = sl.elts[0] if isinstance(sl, ast.Tuple) else sl
        rest_ok = (not isinstance(sl, ast.Tuple)) or (len(sl.elts) == 2 and _is_full(sl.elts[1]))
        if isinstance(first, ast.Name) and first.id == idx and rest_ok:
            sel = "member_rows"
    o.defn("REFCL_SUMMARY", "String × String × String",
           f"({lstr(call.func.id)}, {lstr(sel)}, {lstr(ast.unparse(call.args[1]) if len(call.args) > 1 else '')})",
           "create_clusters: (summary function, which rows it gets, the depths argument)")
    info_var = next((k for k, v in local.items() if v is call), None)
    cols = []
    for s in loop.body:
        for n in ast.walk(s):
            if isinstance(n, ast.Call) and isinstance(n.func, ast.Attribute) and n.func.attr == "update" and n.args \
                    and isinstance(n.args[0], ast.Dict):
                for k, v in zip(n.args[0].keys, n.args[0].values):
                    pre = "?" + ast.unparse(k)
                    if (isinstance(k, ast.JoinedStr) and len(k.values) == 2 and isinstance(k.values[0], ast.Constant)
                            and isinstance(k.values[1], ast.FormattedValue) and isinstance(k.values[1].value, ast.Name)
                            and k.values[1].value.id == ivar and k.values[1].format_spec is None):
                        pre = k.values[0].value
                    fld = "?" + ast.unparse(v)
                    if (isinstance(v, ast.Subscript) and isinstance(v.value, ast.Name) and v.value.id == info_var
                            and isinstance(v.slice, ast.Constant)):
                        fld = v.slice.value
                    cols.append((pre, fld))
    o.defn("REFCL_COLUMNS", "List (String × String)", "[" + ", ".join(f"({lstr(a)}, {lstr(b)})" for a, b in cols) + "]",
           "create_clusters: (column name prefix before the cluster number, field of the summary)")
    # summarize_info: the estimators
    sf = _func(tree, "summarize_info")
    smat = sf.args.args[0].arg
    sloc = {}
    result = None
    for s in sf.body:
        if isinstance(s, ast.Assign) and len(s.targets) == 1 and isinstance(s.targets[0], ast.Name):
            sloc[s.targets[0].id] = s.value
        if isinstance(s, ast.Return):
            result = s.value
    while isinstance(result, ast.Name):
        result = sloc[result.id]
    entries = {k.value: v for k, v in zip(result.keys, result.values)}
    l2 = entries["log2"]
    l2name = l2.id if isinstance(l2, ast.Name) else None
    while isinstance(l2, ast.Name):
        l2 = sloc[l2.id]
    est = "?" + ast.unparse(l2)
    axis = 99
    if (isinstance(l2, ast.Call) and isinstance(l2.func, ast.Attribute) and l2.func.attr == "apply_along_axis"
            and len(l2.args) == 3 and isinstance(l2.args[2], ast.Name) and l2.args[2].id == smat):
        est = l2.args[0].attr if isinstance(l2.args[0], ast.Attribute) else ast.unparse(l2.args[0])
        axis = int(ast.literal_eval(l2.args[1]))
    o.defn("REFCL_EST_LOG2", "String × Nat", f"({lstr(est)}, {axis})",
           "summarize_info: estimator of the log2 entry, applied along this axis of the sample matrix (0 = per bin, over the samples)")
    sp = entries["spread"]
    while isinstance(sp, ast.Name):
        sp = sloc[sp.id]
    comps = [n for n in ast.walk(sp) if isinstance(n, (ast.ListComp, ast.GeneratorExp))]
    est2, kw, fed = "?" + ast.unparse(sp), "?", False
    if len(comps) == 1 and len(comps[0].generators) == 1:
        g = comps[0].generators[0]
        elt = comps[0].elt
        z = g.iter
        if (isinstance(elt, ast.Call) and isinstance(z, ast.Call) and isinstance(z.func, ast.Name) and z.func.id == "zip"
                and len(z.args) == 2 and isinstance(g.target, ast.Tuple) and len(g.target.elts) == 2
                and ast.unparse(z.args[0]) == smat + ".T" and isinstance(z.args[1], ast.Name) and z.args[1].id == l2name
                and len(elt.args) == 1 and isinstance(elt.args[0], ast.Name) and elt.args[0].id == g.target.elts[0].id):
            est2 = elt.func.attr if isinstance(elt.func, ast.Attribute) else ast.unparse(elt.func)
            if len(elt.keywords) == 1:
                kw = elt.keywords[0].arg
                fed = isinstance(elt.keywords[0].value, ast.Name) and elt.keywords[0].value.id == g.target.elts[1].id
    o.defn("REFCL_EST_SPREAD", "String × String × Bool", f"({lstr(est2)}, {lstr(kw)}, {'true' if fed else 'false'})",
           "summarize_info: estimator of the spread entry per bin column, its keyword, and whether that keyword gets the bin's log2 entry")
