"""Branch structure of CopyNumArray.center_all (cnvlib/cnary.py) -> Generated/ExprsCenter.lean.

Shape reading (trusted, see also harness/exprtrans.py): the method is read statement by statement --
* the estimator table: the dict literal assigned to `est_funcs` (name -> the function's dotted name);
* the selection: the expression assigned to the table the estimate is taken from, built from `self`, conditional
  expressions on flags and method calls (`x.m(...)` is the abstract function `m` applied to `x`; keyword / flag
  arguments that are passed through are not read);
* under `if <selected table>:` (non-empty): the values handed to the estimator -- with `by_chrom` a list
  comprehension over `<table>.by_chromosome()` (a list of the chromosomes' log2 lists) with its `if len(sub)` filter,
  otherwise the table's log2 column --, the shift expression, and the in-place update of `self.data["log2"]`.
Props/C15Src.lean proves the model's `centerShift` equal to the generated expression.
"""
import ast
import os

from ..exprtrans import Untranslatable
from ..translate import lstr

NAME = "ExprsCenter"
PATH = "cnvlib/cnary.py"


def _sel(e, flags, funs):
    if isinstance(e, ast.Name):
        if e.id != "self":
            raise Untranslatable("selection from " + e.id)
        return "self"
    if isinstance(e, ast.IfExp) and isinstance(e.test, ast.Name):
        flags.append(e.test.id)
        return f"(if {e.test.id} then {_sel(e.body, flags, funs)} else {_sel(e.orelse, flags, funs)})"
    if isinstance(e, ast.Call) and isinstance(e.func, ast.Attribute):
        for a in list(e.args) + [k.value for k in e.keywords]:
            if not isinstance(a, ast.Name):
                raise Untranslatable("argument " + ast.unparse(a))
        funs.append(e.func.attr)
        return f"({e.func.attr} {_sel(e.func.value, flags, funs)})"
    raise Untranslatable("selection " + ast.unparse(e))


def _values(e, table, est):
    # pd.Series([estimator(sub["log2"]) for _c, sub in table.by_chromosome() if len(sub)])  |  table["log2"]
    if isinstance(e, ast.Call) and ast.unparse(e.func) in ("pd.Series", "np.array", "np.asarray", "list") and len(e.args) == 1:
        e = e.args[0]
    if isinstance(e, ast.Subscript) and isinstance(e.value, ast.Name) and e.value.id == table \
            and isinstance(e.slice, ast.Constant) and e.slice.value == "log2":
        return "log2"
    if isinstance(e, (ast.ListComp, ast.GeneratorExp)) and len(e.generators) == 1:
        g = e.generators[0]
        if not (isinstance(g.iter, ast.Call) and isinstance(g.iter.func, ast.Attribute) and g.iter.func.attr == "by_chromosome"
                and isinstance(g.iter.func.value, ast.Name) and g.iter.func.value.id == table and not g.iter.args):
            raise Untranslatable("comprehension source " + ast.unparse(g.iter))
        if not (isinstance(g.target, ast.Tuple) and len(g.target.elts) == 2 and isinstance(g.target.elts[1], ast.Name)):
            raise Untranslatable("comprehension target")
        sub = g.target.elts[1].id
        src = "by_chromosome"
        for c in g.ifs:
            if isinstance(c, ast.Call) and ast.unparse(c.func) == "len" and len(c.args) == 1 \
                    and isinstance(c.args[0], ast.Name) and c.args[0].id == sub:
                src = f"({src}.filter (fun {sub} => {sub}.length != 0))"
            else:
                raise Untranslatable("comprehension filter " + ast.unparse(c))
        el = e.elt
        if not (isinstance(el, ast.Call) and isinstance(el.func, ast.Name) and el.func.id == est and len(el.args) == 1
                and isinstance(el.args[0], ast.Subscript) and isinstance(el.args[0].value, ast.Name)
                and el.args[0].value.id == sub and isinstance(el.args[0].slice, ast.Constant)
                and el.args[0].slice.value == "log2"):
            raise Untranslatable("comprehension element " + ast.unparse(el))
        return f"({src}.map (fun {sub} => {est} {sub}))"
    raise Untranslatable("values " + ast.unparse(e))


def _arith(e, env, est):
    if isinstance(e, ast.Name) and e.id in env:
        return env[e.id]
    if isinstance(e, ast.UnaryOp) and isinstance(e.op, ast.USub):
        return f"(-{_arith(e.operand, env, est)})"
    if isinstance(e, ast.Call) and isinstance(e.func, ast.Name) and e.func.id == est and len(e.args) == 1:
        return f"({est} {_arith(e.args[0], env, est)})"
    if isinstance(e, ast.BinOp) and isinstance(e.op, (ast.Add, ast.Sub)):
        return f"({_arith(e.left, env, est)} {'+' if isinstance(e.op, ast.Add) else '-'} {_arith(e.right, env, est)})"
    if isinstance(e, ast.Constant) and isinstance(e.value, (int, float)) and not isinstance(e.value, bool):
        from ..exprtrans import _rat
        return _rat(e.value)
    raise Untranslatable("shift " + ast.unparse(e))


def _is_log2_of_self(t):
    return isinstance(t, ast.Subscript) and ast.unparse(t.value) in ("self.data", "self") \
        and isinstance(t.slice, ast.Constant) and t.slice.value == "log2"


def _only_logging(stmts):
    return all(isinstance(s, ast.Expr) and isinstance(s.value, ast.Call) and ast.unparse(s.value.func).startswith("logging.")
               for s in stmts)


def extract(repo, o):
    from ..translate import parse, find_func
    tree, _src = parse(os.path.join(repo, PATH))
    fn = find_func(tree, "center_all", cls="CopyNumArray")
    est = fn.args.args[1].arg
    names = ("src_center_estimators", "src_center_selection", "src_center_shift")
    try:
        table = None
        for s in fn.body:
            if isinstance(s, ast.Assign) and len(s.targets) == 1 and isinstance(s.targets[0], ast.Name) \
                    and isinstance(s.value, ast.Dict):
                table = [(k.value, ast.unparse(v)) for k, v in zip(s.value.keys, s.value.values)]
        if table is None:
            raise Untranslatable("estimator table not found")
        guard = [s for s in fn.body if isinstance(s, ast.If) and isinstance(s.test, ast.Name) and not s.orelse
                 and any(isinstance(n, (ast.AugAssign, ast.Assign)) and _is_log2_of_self(
                     n.target if isinstance(n, ast.AugAssign) else n.targets[0]) for n in ast.walk(s))]
        if len(guard) != 1:
            raise Untranslatable("`if <selected table>:` block with the update of log2 not found")
        guard = guard[0]
        tab = guard.test.id
        sel = [s for s in fn.body if isinstance(s, ast.Assign) and len(s.targets) == 1
               and isinstance(s.targets[0], ast.Name) and s.targets[0].id == tab]
        if len(sel) != 1:
            raise Untranslatable("selection assignment")
        flags, funs = [], []
        sel_expr = _sel(sel[0].value, flags, funs)
        # inside the guard
        env, by_flag, delta = {}, None, None
        for s in guard.body:
            if isinstance(s, ast.If) and isinstance(s.test, ast.Name) and len(s.body) == 1 and len(s.orelse) == 1 \
                    and all(isinstance(b, ast.Assign) and isinstance(b.targets[0], ast.Name) for b in (s.body[0], s.orelse[0])) \
                    and s.body[0].targets[0].id == s.orelse[0].targets[0].id:
                by_flag = s.test.id
                env[s.body[0].targets[0].id] = f"(if {by_flag} then {_values(s.body[0].value, tab, est)} else " \
                                               f"{_values(s.orelse[0].value, tab, est)})"
            elif isinstance(s, ast.If) and not s.orelse and _only_logging(s.body):
                continue
            elif isinstance(s, ast.Assign) and len(s.targets) == 1 and isinstance(s.targets[0], ast.Name):
                env[s.targets[0].id] = _arith(s.value, env, est)
            elif isinstance(s, ast.AugAssign) and _is_log2_of_self(s.target) and isinstance(s.op, (ast.Add, ast.Sub)):
                if delta is not None:
                    raise Untranslatable("log2 updated twice")
                v = _arith(s.value, env, est)
                delta = v if isinstance(s.op, ast.Add) else f"(-{v})"
            elif isinstance(s, ast.Expr) and _only_logging([s]):
                continue
            else:
                raise Untranslatable("statement " + ast.unparse(s)[:80])
        if delta is None or by_flag is None:
            raise Untranslatable("update of log2 / by_chrom branch not found")
    except (Untranslatable, KeyError, IndexError, AttributeError) as e:
        for nm in names:
            o.lines.append(f"-- NOT TRANSLATED: {PATH}:center_all ({nm}): {type(e).__name__}: {str(e)[:200]}".replace("\n", " "))
            o.info[nm] = {"error": str(e)[:200]}
        return
    o.lines.append("/-- center_all: the estimators that can be named -/\n"
                   "def src_center_estimators : List (String × String) :=\n  ["
                   + ", ".join(f"({lstr(k)}, {lstr(v)})" for k, v in table) + "]")
    fl = list(dict.fromkeys(flags))
    fu = sorted(set(funs))
    o.lines.append("/-- center_all: the table the estimate is taken from -/\n"
                   f"def src_center_selection {{T : Type}} ({' '.join(fu)} : T → T) ({' '.join(fl)} : Bool) (self : T) : T :=\n"
                   f"  {sel_expr}")
    o.lines.append("/-- center_all: what is added to every bin's log2 (`nonempty` = the selected table has rows; "
                   "`by_chromosome` = its chromosomes' log2 lists, `log2` = its log2 column) -/\n"
                   f"def src_center_shift ({est} : List Rat → Rat) ({by_flag} nonempty : Bool) "
                   "(by_chromosome : List (List Rat)) (log2 : List Rat) : Rat :=\n"
                   f"  if nonempty then {delta} else 0")
    for nm in names:
        o.info[nm] = {"ok": True}
