"""cnvlib/segmentation/hmm.py: the initial HMM handed to pomegranate -> Generated/HmmConsts.lean

`hmm_get_model` builds, from `n_states = len(distributions)` alone,
    binom_coefs = scipy.special.binom(n_states - 1, range(n_states))
    start_probabilities = binom_coefs / binom_coefs.sum()
    transition_matrix = np.identity(n_states) * 100 + np.ones((n_states, n_states)) / n_states
and passes them to `pom.HiddenMarkovModel.from_matrix(transition_matrix, distributions, start_probabilities, ...)`.
The three source expressions are EVALUATED here in exact rational arithmetic by a small interpreter (scalars, vectors,
matrices with numpy broadcasting of + - * /; `np.identity` / `np.eye` / `np.ones` / `np.zeros` / `np.full`,
`scipy.special.binom` / `math.comb`, `range`, `.sum()` / `np.sum`, `len` of the state list), for the 3-state methods (`hmm-germline`, `hmm`) and the
5-state one (`hmm-tumor`).  An expression outside that subset raises (the tie is then reported broken, never silent).
Also recorded: the argument list of the `from_matrix` call (which object goes where)."""
import ast
import os
from fractions import Fraction
from math import comb
from ..translate import parse, find_func, seg, lstr, rat

NAME = "HmmConsts"


class _Unknown(ValueError):
    pass


def _shape(v):
    if isinstance(v, Fraction):
        return ()
    if v and isinstance(v[0], list):
        return (len(v), len(v[0]))
    return (len(v),)


def _bin(op, a, b):
    sa, sb = _shape(a), _shape(b)
    if sa == () and sb == ():
        if isinstance(op, ast.Add):
            return a + b
        if isinstance(op, ast.Sub):
            return a - b
        if isinstance(op, ast.Mult):
            return a * b
        if isinstance(op, ast.Div):
            return a / b
        raise _Unknown("operator " + type(op).__name__)
    if sa == ():
        return [_bin(op, a, y) for y in b]
    if sb == ():
        return [_bin(op, x, b) for x in a]
    if len(sa) == len(sb):
        if sa != sb:
            raise _Unknown(f"shapes {sa} {sb}")
        return [_bin(op, x, y) for x, y in zip(a, b)]
    if len(sa) == 2 and len(sb) == 1:     # matrix (op) row vector
        return [_bin(op, row, b) for row in a]
    if len(sa) == 1 and len(sb) == 2:
        return [_bin(op, a, row) for row in b]
    raise _Unknown(f"shapes {sa} {sb}")


def _ev(e, env):
    if isinstance(e, ast.Constant) and isinstance(e.value, (int, float)) and not isinstance(e.value, bool):
        return Fraction(e.value)
    if isinstance(e, ast.Name):
        if e.id in env:
            return env[e.id]
        raise _Unknown("name " + e.id)
    if isinstance(e, ast.UnaryOp) and isinstance(e.op, ast.USub):
        return _bin(ast.Mult(), Fraction(-1), _ev(e.operand, env))
    if isinstance(e, ast.BinOp):
        return _bin(e.op, _ev(e.left, env), _ev(e.right, env))
    if isinstance(e, (ast.Tuple, ast.List)):
        return [_ev(x, env) for x in e.elts]
    if isinstance(e, ast.Call):
        f = ast.unparse(e.func)
        args = [_ev(a, env) for a in e.args]
        if e.keywords:
            raise _Unknown("keyword arguments in " + f)
        def nat(x):
            if not isinstance(x, Fraction) or x.denominator != 1 or x < 0:
                raise _Unknown("not a natural number in " + f)
            return int(x)
        if f in ("np.identity", "np.eye", "numpy.identity", "numpy.eye") and len(args) == 1:
            n = nat(args[0])
            return [[Fraction(int(i == j)) for j in range(n)] for i in range(n)]
        if f in ("np.ones", "np.zeros", "numpy.ones", "numpy.zeros") and len(args) == 1:
            c = Fraction(1 if f.endswith("ones") else 0)
            if isinstance(args[0], list):
                dims = [nat(x) for x in args[0]]
                if len(dims) == 2:
                    return [[c] * dims[1] for _ in range(dims[0])]
                if len(dims) == 1:
                    return [c] * dims[0]
                raise _Unknown("shape of " + f)
            return [c] * nat(args[0])
        if f in ("np.full", "numpy.full") and len(args) == 2 and isinstance(args[0], list) and len(args[0]) == 2:
            return [[args[1]] * nat(args[0][1]) for _ in range(nat(args[0][0]))]
        if f == "range" and len(args) == 1:
            return [Fraction(i) for i in range(nat(args[0]))]
        if f in ("scipy.special.binom", "special.binom", "binom", "math.comb", "scipy.special.comb") and len(args) == 2:
            n, k = args
            if isinstance(k, list):
                return [Fraction(comb(nat(n), nat(x))) for x in k]
            return Fraction(comb(nat(n), nat(k)))
        if f == "len" and len(args) == 1 and isinstance(args[0], list):
            return Fraction(len(args[0]))
        if (isinstance(e.func, ast.Attribute) and e.func.attr == "sum" and not e.args) or (f in ("np.sum", "numpy.sum", "sum") and len(args) == 1):
            v = args[0] if e.args else _ev(e.func.value, env)
            if _shape(v) == ():
                return v
            flat = [x for row in v for x in row] if len(_shape(v)) == 2 else v
            return sum(flat, Fraction(0))
        if f in ("np.array", "np.asarray", "numpy.array", "numpy.asarray", "np.asfarray", "list") and len(args) == 1:
            return args[0]
        raise _Unknown("call " + f)
    raise _Unknown(ast.unparse(e)[:60])


def _vec(v):
    return "[" + ", ".join(rat(x) for x in v) + "]"


def extract(repo, o):
    tree, src = parse(os.path.join(repo, "cnvlib/segmentation/hmm.py"))
    fn = find_func(tree, "hmm_get_model")
    # the statements between the method chain and the from_matrix call, in order
    assigns = []
    call = None
    for n in fn.body:
        if isinstance(n, ast.Assign) and len(n.targets) == 1 and isinstance(n.targets[0], ast.Name):
            assigns.append((n.targets[0].id, n.value))
            if isinstance(n.value, ast.Call) and ast.unparse(n.value.func).endswith("from_matrix"):
                call = n.value
                break
    if call is None:
        raise ValueError("hmm_get_model: `model = ...from_matrix(...)` not found")
    args = [seg(src, a) for a in call.args] + [f"{k.arg}={seg(src, k.value)}" for k in call.keywords]
    o.defn("HMM_FROM_MATRIX_ARGS", "List String", "[" + ", ".join(lstr(a) for a in args) + "]",
           "hmm_get_model: arguments of pom.HiddenMarkovModel.from_matrix, in source order")
    if len(call.args) < 3 or not all(isinstance(a, ast.Name) for a in call.args[:3]):
        raise ValueError("hmm_get_model: from_matrix is not called with (matrix, distributions, starts) by name")
    t_name, d_name, s_name = (a.id for a in call.args[:3])
    for n_states in (3, 5):
        env = {d_name: [Fraction(0)] * n_states, "state_names": [Fraction(0)] * n_states}
        for name, value in assigns:
            if name in (d_name, "observations", "stdev", "state_names", "model"):
                continue
            try:
                env[name] = _ev(value, env)
            except _Unknown as e:
                raise ValueError(f"hmm_get_model: `{name} = {seg(src, value)[:60]}` is outside the evaluated subset ({e})")
        start, trans = env.get(s_name), env.get(t_name)
        if start is None or trans is None or _shape(start) != (n_states,) or _shape(trans) != (n_states, n_states):
            raise ValueError("hmm_get_model: start vector / transition matrix not found or of the wrong shape")
        o.defn(f"HMM_START_{n_states}", "List Rat", _vec(start),
               f"start probabilities handed to from_matrix for {n_states} states (exact value of the source expression)")
        o.defn(f"HMM_TRANS_{n_states}", "List (List Rat)", "[" + ", ".join(_vec(r) for r in trans) + "]",
               f"transition matrix handed to from_matrix for {n_states} states (rows = from-state; pomegranate normalises each row)")
