"""Source expressions -> Generated/ExprsRef.lean (see harness/exprtrans_c05.py for the reading of the Python subset).
Props/C05Src.lean proves that the hand-written model functions of the pooled / flat reference equal these generated
ones, so an edit to one of these functions in /repo changes the generated term and breaks that proof obligation."""
from ..exprtrans_c05 import emit   # C05 reader variant (see the note at the top of that file)

NAME = "ExprsRef"
SPECS = [
    ("cnvlib/reference.py", "calculate_gc_lo", "src_calculate_gc_lo",
     {"params": ["subseq_count_" + c for c in "atATgcGC"]},
     "reference.calculate_gc_lo: (gc, rmask) from the counts of each letter in the bin's sequence"),
    ("cnvlib/reference.py", "shift_sex_chroms", "src_shift_sex_chroms",
     {"bools": ("is_chr_x", "is_chr_y"), "opaque": {"sexes.get(cnarr.sample_id)": "is_xx"}, "result": "cnarr_log2",
      "params": ["is_chr_x", "is_chr_y", "is_xx", "ref_flat_logr", "cnarr_log2"]},
     "reference.shift_sex_chroms, one bin: the new cnarr['log2'] (is_xx = truthiness of the sample's recorded sex)"),
    ("cnvlib/cnary.py", "expect_flat_log2", "src_expect_flat_log2",
     {"bools": ("is_haploid_x_reference",), "given": ("is_haploid_x_reference",),
      "opaque": {"self.chr_x_filter(diploid_parx_genome)": "is_chr_x_nonpar",
                 "self.chr_y_filter(diploid_parx_genome)": "is_chr_y_nonpar",
                 "self.chr_y_filter()": "is_chr_y_all"},
      "params": ["is_haploid_x_reference", "is_chr_x_nonpar", "is_chr_y_nonpar", "is_chr_y_all"]},
     "CopyNumArray.expect_flat_log2, one bin (the reference sex is given); masks: X / Y outside the PARs of the given "
     "genome, and the whole of Y"),
]


def extract(repo, o):
    emit(repo, o, SPECS)
