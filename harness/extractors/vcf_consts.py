"""cnvlib/cmdutil.py load_het_snps, cnvlib/commands.py (the five commands that call it), skgenome/tabio/vcfio.py literals
-> Generated/VcfConsts.lean

* load_het_snps: its parameter list and defaults, the thresholds it falls back to when the normal carries no genotype,
  the keywords it hands to tabio.read, the arguments it hands to zygosity_from_freq;
* every `_cmd_*` function that calls load_het_snps: the positional arguments of that call (source text), and from the
  argparse declarations of the parser whose `func` it is (the parser itself and its argument groups): default / const /
  nargs of `--sample-id`, `--normal-id`, `--min-variant-depth`, `--zygosity-freq`;
* vcfio: the FILTER values that do not reject a record, the gVCF placeholder allele, the PEDIGREE keys of a pair."""
import ast
import os

from ..translate import parse, find_func, func_defaults, rat, dec, seg, lstr

NAME = "VcfConsts"
OPTIONS = ["--sample-id", "--normal-id", "--min-variant-depth", "--zygosity-freq"]


def _strs(xs):
    return "[" + ", ".join(lstr(x) for x in xs) + "]"


def _kw(call, name):
    for k in call.keywords:
        if k.arg == name:
            return k.value
    return None


def extract(repo, o):
    # ---- load_het_snps ---------------------------------------------------------------------------------------------
    tree, src = parse(os.path.join(repo, "cnvlib/cmdutil.py"))
    fn = find_func(tree, "load_het_snps")
    params = [a.arg for a in fn.args.args]
    o.defn("lhsParams", "List String", _strs(params), "load_het_snps: parameter names in order")
    d = func_defaults(fn)
    o.defn("lhsDefaults", "List (String × String)",
           "[" + ", ".join(f"({lstr(k)}, {lstr(repr(v))})" for k, v in d.items()) + "]",
           "load_het_snps: defaults as written")
    o.defn("lhsMinVariantDepthDefault", "Int", str(int(d["min_variant_depth"])))
    # the fallback: `zygosity_freq = <literal>` inside an `if zygosity_freq is None and ...`
    fb = [s for i in ast.walk(fn) if isinstance(i, ast.If) and "zygosity_freq is None" in ast.unparse(i.test)
          for s in i.body if isinstance(s, ast.Assign) and ast.unparse(s.targets[0]) == "zygosity_freq"]
    if len(fb) != 1:
        raise ValueError("load_het_snps: fallback zygosity_freq assignment not found")
    o.flt("lhsFallbackZygFreq", ast.literal_eval(fb[0].value), seg(src, fb[0].value),
          "load_het_snps: zygosity_freq used when the normal's genotypes are all 0/0 or missing")
    cond = [i for i in ast.walk(fn) if isinstance(i, ast.If) and "zygosity_freq is None" in ast.unparse(i.test)][0]
    o.defn("lhsFallbackCondition", "String", lstr(ast.unparse(cond.test)), "… and when it does so")
    reads = [c for c in ast.walk(fn) if isinstance(c, ast.Call) and ast.unparse(c.func) == "tabio.read"]
    if len(reads) != 1:
        raise ValueError("load_het_snps: expected one tabio.read call")
    rd = reads[0]
    o.defn("lhsReadArgs", "List String", _strs(ast.unparse(a) for a in rd.args), "positional arguments of its tabio.read call")
    o.defn("lhsReadKeywords", "List (String × String)",
           "[" + ", ".join(f"({lstr(k.arg)}, {lstr(ast.unparse(k.value))})" for k in rd.keywords) + "]",
           "keywords of its tabio.read call")
    zc = [c for c in ast.walk(fn) if isinstance(c, ast.Call) and isinstance(c.func, ast.Attribute)
          and c.func.attr == "zygosity_from_freq"]
    if len(zc) != 1:
        raise ValueError("load_het_snps: expected one zygosity_from_freq call")
    o.defn("lhsRetypeArgs", "List String", _strs(ast.unparse(a) for a in zc[0].args),
           "arguments of its zygosity_from_freq call (het_freq, hom_freq)")

    # ---- the commands ----------------------------------------------------------------------------------------------
    tree, src = parse(os.path.join(repo, "cnvlib/commands.py"), inline=False)
    callers = []
    for f in tree.body:
        if isinstance(f, ast.FunctionDef) and f.name.startswith("_cmd_"):
            calls = [c for c in ast.walk(f) if isinstance(c, ast.Call) and ast.unparse(c.func) == "load_het_snps"]
            if calls:
                if len(calls) != 1:
                    raise ValueError(f"{f.name}: more than one load_het_snps call")
                callers.append((f.name, calls[0]))
    o.defn("cliVcfCommands", "List String", _strs(n for n, _ in callers), "the command functions that call load_het_snps")
    o.defn("cliLoadHetSnpsArgs", "List (String × List String)",
           "[" + ", ".join(f"({lstr(n)}, {_strs(ast.unparse(a) for a in c.args)})" for n, c in callers) + "]",
           "positional arguments of each command's load_het_snps call")
    o.defn("cliLoadHetSnpsKeywords", "List (String × List (String × String))",
           "[" + ", ".join(f"({lstr(n)}, [" + ", ".join(f"({lstr(k.arg or '**')}, {lstr(ast.unparse(k.value))})" for k in c.keywords) + "])"
                           for n, c in callers) + "]",
           "keyword arguments of each command's load_het_snps call")
    # parser of each command: P with `P.set_defaults(func=_cmd_x)`, plus its argument groups
    parser_of, groups = {}, {}
    for s in tree.body:
        if isinstance(s, ast.Expr) and isinstance(s.value, ast.Call) and isinstance(s.value.func, ast.Attribute) \
                and s.value.func.attr == "set_defaults" and isinstance(s.value.func.value, ast.Name):
            f = _kw(s.value, "func")
            if isinstance(f, ast.Name):
                parser_of[f.id] = s.value.func.value.id
        if isinstance(s, ast.Assign) and isinstance(s.value, ast.Call) and isinstance(s.value.func, ast.Attribute) \
                and s.value.func.attr == "add_argument_group" and isinstance(s.value.func.value, ast.Name) \
                and isinstance(s.targets[0], ast.Name):
            groups.setdefault(s.value.func.value.id, []).append(s.targets[0].id)
    decl = {}
    for s in tree.body:
        if isinstance(s, ast.Expr) and isinstance(s.value, ast.Call) and isinstance(s.value.func, ast.Attribute) \
                and s.value.func.attr == "add_argument" and isinstance(s.value.func.value, ast.Name):
            flags = [a.value for a in s.value.args if isinstance(a, ast.Constant) and isinstance(a.value, str)]
            for opt in OPTIONS:
                if opt in flags:
                    decl.setdefault(s.value.func.value.id, {}).setdefault(opt, []).append(s.value)
    rows = {opt: [] for opt in OPTIONS}
    for name, _c in callers:
        p = parser_of.get(name)
        owners = [p] + groups.get(p, [])
        for opt in OPTIONS:
            found = [c for w in owners for c in decl.get(w, {}).get(opt, [])]
            if len(found) != 1:
                raise ValueError(f"{name}: {len(found)} declarations of {opt}")
            rows[opt].append((name, found[0]))

    def field(call, key):
        v = _kw(call, key)
        return None if v is None else v

    def opt_table(lean, opt, key, typ, conv, comment):
        items = []
        for name, call in rows[opt]:
            v = field(call, key)
            items.append(f"({lstr(name)}, {'none' if v is None else '(some ' + conv(v) + ')'})")
        o.defn(lean, f"List (String × Option {typ})", "[" + ", ".join(items) + "]", comment)

    as_int = lambda v: "(" + str(int(ast.literal_eval(v))) + " : Int)"
    as_rat = lambda v: rat(ast.literal_eval(v))
    as_dec = lambda v: dec(seg(src, v))
    as_txt = lambda v: lstr(ast.unparse(v))
    opt_table("cliMinVariantDepthDefault", "--min-variant-depth", "default", "Int", as_int,
              "option --min-variant-depth: value when the option is left out")
    opt_table("cliMinVariantDepthType", "--min-variant-depth", "type", "String", as_txt, "option --min-variant-depth: type")
    opt_table("cliZygosityFreqConst", "--zygosity-freq", "const", "Rat", as_rat,
              "the zygosity-freq option given without a number: the value handed on (exact double)")
    opt_table("cliZygosityFreqConst_dec", "--zygosity-freq", "const", "Rat", as_dec, "… as written")
    opt_table("cliZygosityFreqNargs", "--zygosity-freq", "nargs", "String", as_txt, "option --zygosity-freq: nargs")
    opt_table("cliZygosityFreqDefault", "--zygosity-freq", "default", "String", as_txt,
              "option --zygosity-freq: value when left out (none = argparse's None)")
    opt_table("cliSampleIdDefault", "--sample-id", "default", "String", as_txt, "option --sample-id: value when left out")
    opt_table("cliNormalIdDefault", "--normal-id", "default", "String", as_txt, "option --normal-id: value when left out")

    # ---- vcfio literals --------------------------------------------------------------------------------------------
    tree, src = parse(os.path.join(repo, "skgenome/tabio/vcfio.py"))
    pr = find_func(tree, "_parse_records")
    sets = [n for n in ast.walk(pr) if isinstance(n, ast.BinOp) and isinstance(n.op, ast.Sub) and isinstance(n.right, ast.Set)
            and "record.filter" in ast.unparse(n.left)]
    if len(sets) != 1:
        raise ValueError("_parse_records: the set of accepted FILTER values was not found")
    o.defn("vcfPassFilters", "List String", _strs(ast.literal_eval(e) for e in sets[0].right.elts),
           "FILTER values that do not make skip_reject drop a record")
    ph = [c.comparators[0].value for c in ast.walk(pr) if isinstance(c, ast.Compare) and ast.unparse(c.left) == "alt"
          and isinstance(c.ops[0], ast.Eq) and isinstance(c.comparators[0], ast.Constant)]
    if len(ph) != 1:
        raise ValueError("_parse_records: the skipped placeholder allele was not found")
    o.defn("vcfGvcfPlaceholder", "String", lstr(ph[0]), "the ALT allele that yields no row")
    pp = find_func(tree, "_parse_pedigrees")
    ped = [i for i in ast.walk(pp) if isinstance(i, ast.If) and ast.unparse(i.test) == "'PEDIGREE' in meta"]
    if len(ped) != 1:
        raise ValueError("_parse_pedigrees: PEDIGREE branch not found")
    inside = [n for st in ped[0].body for n in ast.walk(st)]  # the PEDIGREE arm only, not the GATK arms after it
    ys = [n for n in inside if isinstance(n, ast.Yield)]
    guard = [i for i in inside if isinstance(i, ast.If) and " in tag" in ast.unparse(i.test)]
    assigns = {ast.unparse(s.targets[0]): s.value for s in inside if isinstance(s, ast.Assign)}
    if len(ys) < 1 or not isinstance(ys[0].value, ast.Tuple) or len(guard) < 1:
        raise ValueError("_parse_pedigrees: PEDIGREE branch has an unknown shape")

    def key_of(e):
        e = assigns.get(ast.unparse(e), e)
        if isinstance(e, ast.Subscript) and ast.unparse(e.value) == "tag" and isinstance(e.slice, ast.Constant):
            return e.slice.value
        raise ValueError("_parse_pedigrees: a yielded id is not tag[<key>]")
    o.defn("pedigreeGuardKey", "String", lstr(ast.literal_eval(guard[0].test.left)), "a PEDIGREE tag declares a pair when it has this key")
    o.defn("pedigreeTumorKey", "String", lstr(key_of(ys[0].value.elts[0])), "… the tumour (first of the pair) under this key")
    o.defn("pedigreeNormalKey", "String", lstr(key_of(ys[0].value.elts[1])), "… the normal (second of the pair) under this key")
    rv = find_func(tree, "read_vcf")
    dv = func_defaults(rv)
    o.defn("readVcfDefaults", "List (String × String)",
           "[" + ", ".join(f"({lstr(k)}, {lstr(repr(v))})" for k, v in dv.items()) + "]", "read_vcf: defaults as written")
