"""Source bodies of C12's label shortening -> Generated/ExprsShorten.lean (reader: harness/shortentrans.py).

* `target.shorten_labels`: the `for label in gene_labels:` state machine (loop-carried `curr_names`,
  `curr_gene_count`; `longest_name_len` is diagnostic: only logged), the emission after the loop and the initial state;
* `target.shortest_name`: `min(filter_names(names), key=len)` and the `DB|accession` trimming after it.

Props/C12SrcShorten.lean proves that the hand-written `shortenLabels` / `shortestNames` / `pipeTrim` of Model/Bins.lean
EQUAL these generated definitions (with `filter_names` := `filterNames`, itself tied by Props/C12SrcNames)."""
import os

from ..exprtrans import Untranslatable
from ..shortentrans import COLL, NAT, STR, loop, min_then
from ..translate import parse, find_func

NAME = "ExprsShorten"
IMPORTS = ["CnvVerif.Model.BinsExt5Prims"]


def extract(repo, o):
    o.lines.append("set_option linter.unusedVariables false\nopen CnvVerif\n")
    path = os.path.join(repo, "cnvlib/target.py")
    jobs = (
        ("src_shorten_labels", lambda t: loop(
            find_func(t, "shorten_labels"), "src_shorten_labels", "label", STR,
            state=[("curr_names", COLL), ("curr_gene_count", NAT)],
            funcs={"filter_names": ([COLL], COLL), "shortest_name": ([COLL], None)},
            diag=["longest_name_len"], ytype="β",
            comment="target.shorten_labels, `for label in gene_labels:`")),
        ("src_shortest_name", lambda t: min_then(
            find_func(t, "shortest_name"), "src_shortest_name",
            funcs={"filter_names": ([COLL], COLL)},
            comment="target.shortest_name")),
    )
    for lean, job in jobs:
        try:
            tree, _src = parse(path)
            text = job(tree)
        except (Untranslatable, KeyError, OSError, SyntaxError) as e:
            o.lines.append(f"-- NOT TRANSLATED: cnvlib/target.py:{lean}: {type(e).__name__}: {str(e)[:200]}"
                           .replace("\n", " "))
            o.info[lean] = {"error": str(e)[:200]}
            continue
        o.lines.append(text)
        o.info[lean] = {"ok": True}
