"""Decision tables and row masks of the calling code -> Generated/ExprsTbl.lean (typed reader `TFn` of
harness/exprtrans.py).  Props/C01SrcTbl.lean proves that the model's `refExpect ∘ classOf` and `refCopiesPure` ARE these
generated definitions, for every chromosome name, coordinate, ploidy and flag."""
from ..exprtrans import emit_typed

NAME = "ExprsTbl"

_LOOKUPS = [("par1_start", "par1_end"), ("par2_start", "par2_end")]
_PAR = {"par1_start": "Int", "par1_end": "Int", "par2_start": "Int", "par2_end": "Int"}

SPECS = [
    ("cnvlib/call.py", None, "_reference_copies_pure", "src_reference_copies_pure",
     {"types": {"chrom": "String", "ploidy": "Nat", "is_haploid_x_reference": "Bool"}, "result": "Nat"},
     "call._reference_copies_pure"),
    ("cnvlib/call.py", None, "get_as_dframe_and_set_reference_and_expect_copies", "src_reference_expect",
     {"types": {"ploidy": "Nat", "is_haploid_x_reference": "Bool", "is_sample_female": "Bool",
                "diploid_parx_genome_given": "Bool", "chr_x_filter": "Bool", "chr_y_filter": "Bool", "pary_filter": "Bool"},
      "result": "Nat × Nat", "table": "df", "columns": ["reference", "expect"],
      "masks": ["chr_x_filter", "chr_y_filter", "pary_filter"], "optional": ["diploid_parx_genome"]},
     "call.get_as_dframe_and_set_reference_and_expect_copies, one row: (reference, expect); the three row masks are parameters"),
    ("cnvlib/cnary.py", "CopyNumArray", "chr_x_filter", "src_chr_x_filter",
     {"types": {"chromosome": "String", "chr_x_label": "String", "diploid_parx_genome_given": "Bool", "parx_filter": "Bool"},
      "result": "Bool", "masks": ["parx_filter"], "optional": ["diploid_parx_genome"]},
     "cnary.CopyNumArray.chr_x_filter, one row"),
    ("cnvlib/cnary.py", "CopyNumArray", "chr_y_filter", "src_chr_y_filter",
     {"types": {"chromosome": "String", "chr_y_label": "String", "diploid_parx_genome_given": "Bool", "pary_filter": "Bool"},
      "result": "Bool", "masks": ["pary_filter"], "optional": ["diploid_parx_genome"]},
     "cnary.CopyNumArray.chr_y_filter, one row"),
    ("cnvlib/cnary.py", "CopyNumArray", "parx_filter", "src_parx_filter",
     {"types": {"chromosome": "String", "chr_x_label": "String", "genome_build": "String", "start": "Int", "end_": "Int", **_PAR},
      "result": "Bool", "lookup_params": _LOOKUPS},
     "cnary.CopyNumArray.parx_filter, one row (the PAR coordinates of the genome are parameters)"),
    ("cnvlib/cnary.py", "CopyNumArray", "pary_filter", "src_pary_filter",
     {"types": {"chromosome": "String", "chr_y_label": "String", "genome_build": "String", "start": "Int", "end_": "Int", **_PAR},
      "result": "Bool", "lookup_params": _LOOKUPS},
     "cnary.CopyNumArray.pary_filter, one row (the PAR coordinates of the genome are parameters)"),
]


def extract(repo, o):
    emit_typed(repo, o, SPECS)
