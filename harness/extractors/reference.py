"""cnvlib/reference.py structure -> Generated/RefConsts.lean: which bias corrections `bias_correct_logr` applies, in
which order, under which flag, with which window fraction; when it skips them; and which flags `combine_probes` hands
to `load_sample_block` for the target and the antitarget block."""
import ast
import os
from ..translate import parse, find_func, dec, seg, lstr

NAME = "RefConsts"

_KEYS = {'ref_columns["gc"]': "gc", "ref_columns['gc']": "gc", 'ref_columns["rmask"]': "rmask",
         "ref_columns['rmask']": "rmask", "ref_edge_bias": "edge"}


def _flag_of(test):
    """the do-flag of a guard such as `"gc" in ref_columns and fix_gc` / `fix_edge`"""
    names = [n.id for n in ast.walk(test) if isinstance(n, ast.Name) and n.id.startswith("fix_")]
    return names[0] if len(names) == 1 else "?" + ast.unparse(test)


def extract(repo, o):
    tree, src = parse(os.path.join(repo, "cnvlib/reference.py"))
    fn = find_func(tree, "bias_correct_logr")
    steps = []

    def walk(stmts, guard):
        for s in stmts:
            if isinstance(s, ast.If):
                walk(s.body, s.test)
                walk(s.orelse, None)
                continue
            for n in ast.walk(s):
                if isinstance(n, ast.Call) and isinstance(n.func, ast.Attribute) and n.func.attr == "center_by_window":
                    key = ast.unparse(n.args[2])
                    steps.append((n.lineno, _KEYS.get(key, "?" + key), _flag_of(guard) if guard is not None else "always",
                                  dec(seg(src, n.args[1]))))
    walk(fn.body, None)
    steps.sort()
    o.defn("REF_CORRECTION_STEPS", "List (String × String × Rat)",
           "[" + ", ".join(f"({lstr(k)}, {lstr(f)}, {fr})" for _, k, f, fr in steps) + "]",
           "bias_correct_logr: the center_by_window calls in source order: (key, guarding flag, window fraction)")
    # the skip test: `(cnarr["log2"] > <threshold>).sum() <= len(cnarr) // <d>`
    thr = cmp_inner = cmp_outer = div = None
    from ..translate import expand
    for n in ast.walk(fn):
        if isinstance(n, ast.If) and isinstance(n.test, ast.Compare) and len(n.test.ops) == 1:
            t = expand(n.test, fn, tree)      # single-assignment locals are read through
            inner = [m for m in ast.walk(t.left) if isinstance(m, ast.Compare)]
            if inner and isinstance(t.comparators[0], ast.BinOp) and isinstance(t.comparators[0].op, ast.FloorDiv):
                cmp_outer = type(t.ops[0]).__name__
                div = ast.literal_eval(t.comparators[0].right)
                cmp_inner = type(inner[0].ops[0]).__name__
                thr = eval(compile(ast.Expression(inner[0].comparators[0]), "<thr>", "eval"), {"__builtins__": {}}, {})
    from fractions import Fraction
    from ..translate import rat
    o.defn("REF_LOWCOV_THRESHOLD", "Rat", rat(Fraction(thr)) if thr is not None else "(0 : Rat) -- NOT FOUND",
           "bias_correct_logr: a bin counts as covered when log2 <cmp> this (NULL_LOG2_COVERAGE - MIN_REF_COVERAGE)")
    o.defn("REF_LOWCOV_TEST", "String × String × Nat", f"({lstr(str(cmp_inner))}, {lstr(str(cmp_outer))}, {div if div is not None else 0})",
           "(comparison of log2 with the threshold, comparison of the count with len // d, d): corrections are skipped when the test holds")
    # combine_probes: skip_low, fix_gc, fix_edge, fix_rmask handed to load_sample_block (targets, antitargets)
    fc = find_func(tree, "combine_probes")
    calls = [n for n in ast.walk(fc) if isinstance(n, ast.Call) and isinstance(n.func, ast.Name) and n.func.id == "load_sample_block"]
    calls.sort(key=lambda n: n.lineno)
    for name, c in zip(("TARGET", "ANTITARGET"), calls):
        flags = [ast.unparse(a) for a in c.args[5:9]]
        o.defn(f"REF_{name}_FLAGS", "List String", "[" + ", ".join(lstr(f) for f in flags) + "]",
               "skip_low, fix_gc, fix_edge, fix_rmask arguments of load_sample_block")
