"""Source text of the gather glue of `do_segmentation` -> Generated/ExprsSegGather.lean (C03, round 5).
Props/C03SrcGather.lean pins these against the model `Model/TileGatherExt5.lean`.

Reading rules of this file (narrow reader of its own, part of the trusted base; anything else raises -> broken tie)
* `do_segmentation` has exactly one top-level `if` whose body calls `_do_segmentation(...)` directly and whose `else` calls
  `<pool>.map(...)`: its TEST is read as a Boolean function of the string `method` (`method == "s"` is `method == "s"`,
  `method.startswith("s")` is `method.startsWith "s"`, `method in ("a", "b")` a disjunction, `or` / `and` / `not` are
  `||` / `&&` / `!`): `src_segment_whole_table`;
* the gather discipline: `<pool>.map(f, it)` hands results back in submission order = "ordered"; `as_completed` /
  `imap_unordered` anywhere in the function = "completed" (`src_segment_gather_mode`); the mapped function `f` must be a
  module-level function whose body is `return _do_segmentation(*args)`; `it` must be a generator of tuples over
  `<table>.<units>()` whose first element is the loop's unit: `src_segment_units` is the method name, `src_segment_worker_args`
  the names of the other tuple elements in order; `src_segment_worker_params` are the parameter names of `_do_segmentation`
  after the first; `src_segment_whole_args` the (positional) argument names of the direct call after the first;
* the results bound by `<rets> = list(<pool>.map(..))` must be what is joined by `<cna> = <table>.concat(<rets>)`
  (`src_segment_join` = "concat"); the statement after the `if` must be `<cna>.sort_columns()` (`src_segment_post`);
* `src_segment_processes_uses`: where the parameter `processes` is read -- the callee names it is an argument of, and "log"
  for an f-string -- sorted, distinct;
* `src_segment_methods`: the module constant SEGMENT_METHODS.
"""
import ast
import os

from ..translate import parse, find_func, lstr

NAME = "ExprsSegGather"
SEG = "cnvlib/segmentation/__init__.py"


class Bad(Exception):
    pass


def _strs(xs):
    return "[" + ", ".join(lstr(x) for x in xs) + "]"


def _test(n):
    if isinstance(n, ast.BoolOp):
        op = " || " if isinstance(n.op, ast.Or) else " && "
        return "(" + op.join(_test(v) for v in n.values) + ")"
    if isinstance(n, ast.UnaryOp) and isinstance(n.op, ast.Not):
        return f"(!{_test(n.operand)})"
    if isinstance(n, ast.Compare) and len(n.ops) == 1 and isinstance(n.left, ast.Name) and n.left.id == "method":
        c = n.comparators[0]
        if isinstance(n.ops[0], ast.Eq) and isinstance(c, ast.Constant) and isinstance(c.value, str):
            return f"(method == {lstr(c.value)})"
        if isinstance(n.ops[0], ast.In) and isinstance(c, (ast.Tuple, ast.List)) and c.elts and \
                all(isinstance(e, ast.Constant) and isinstance(e.value, str) for e in c.elts):
            return "(" + " || ".join(f"method == {lstr(e.value)}" for e in c.elts) + ")"
    if isinstance(n, ast.Call) and isinstance(n.func, ast.Attribute) and n.func.attr == "startswith" \
            and isinstance(n.func.value, ast.Name) and n.func.value.id == "method" and len(n.args) == 1 \
            and isinstance(n.args[0], ast.Constant) and isinstance(n.args[0].value, str):
        return f"(method.startsWith {lstr(n.args[0].value)})"
    raise Bad("branch test outside the subset: " + ast.unparse(n))


def _calls(nodes, pred):
    return [c for s in nodes for c in ast.walk(s) if isinstance(c, ast.Call) and pred(c)]


def extract(repo, o):
    tree, _ = parse(os.path.join(repo, SEG), inline=False)
    fn = find_func(tree, "do_segmentation")
    inner = find_func(tree, "_do_segmentation")
    is_direct = lambda c: isinstance(c.func, ast.Name) and c.func.id == "_do_segmentation"
    is_map = lambda c: isinstance(c.func, ast.Attribute) and c.func.attr == "map"
    ifs = [s for s in fn.body if isinstance(s, ast.If) and _calls(s.body, is_direct) and _calls(s.orelse, is_map)]
    if len(ifs) != 1:
        raise Bad("do_segmentation: no unique `if <test>: _do_segmentation(..) else: pool.map(..)`")
    br = ifs[0]
    o.lines.append("/-- do_segmentation: the test sending a method to ONE call on the whole table (no by_arm, no pool) -/")
    o.lines.append(f"def src_segment_whole_table (method : String) : Bool := {_test(br.test)}")
    o.info["src_segment_whole_table"] = _test(br.test)
    names = {n.attr if isinstance(n, ast.Attribute) else getattr(n, "id", "") for n in ast.walk(fn)}
    mode = "completed" if names & {"as_completed", "imap_unordered", "submit"} else "ordered"
    o.defn("src_segment_gather_mode", "String", lstr(mode), "do_segmentation: how the pool's results are gathered")
    m = _calls(br.orelse, is_map)
    if len(m) != 1 or len(m[0].args) != 2 or m[0].keywords or not isinstance(m[0].args[0], ast.Name):
        raise Bad("do_segmentation: not exactly one `pool.map(f, it)`")
    wf = find_func(tree, m[0].args[0].id)
    body = [s for s in wf.body if not (isinstance(s, ast.Expr) and isinstance(s.value, ast.Constant))]
    ok = len(body) == 1 and isinstance(body[0], ast.Return) and isinstance(body[0].value, ast.Call) \
        and is_direct(body[0].value) and len(body[0].value.args) == 1 and isinstance(body[0].value.args[0], ast.Starred) \
        and isinstance(body[0].value.args[0].value, ast.Name) and body[0].value.args[0].value.id == wf.args.args[0].arg \
        and not body[0].value.keywords
    if not ok:
        raise Bad("the mapped function is not `return _do_segmentation(*args)`")
    gen = m[0].args[1]
    if not (isinstance(gen, (ast.GeneratorExp, ast.ListComp)) and len(gen.generators) == 1 and not gen.generators[0].ifs
            and isinstance(gen.elt, ast.Tuple) and all(isinstance(e, ast.Name) for e in gen.elt.elts)):
        raise Bad("the mapped iterable is not a plain generator of tuples of names")
    g = gen.generators[0]
    unit = g.target.elts[-1].id if isinstance(g.target, ast.Tuple) else getattr(g.target, "id", None)
    table = fn.args.args[0].arg
    if not (isinstance(g.iter, ast.Call) and isinstance(g.iter.func, ast.Attribute) and isinstance(g.iter.func.value, ast.Name)
            and g.iter.func.value.id == table and not g.iter.args and not g.iter.keywords and gen.elt.elts[0].id == unit):
        raise Bad("the generator does not run over <table>.<units>() with the unit first in the tuple")
    o.defn("src_segment_units", "String", lstr(g.iter.func.attr), "do_segmentation: the units handed to the pool")
    o.defn("src_segment_worker_args", "List String", _strs([e.id for e in gen.elt.elts[1:]]),
           "do_segmentation: what each task carries besides its unit, in order")
    o.defn("src_segment_worker_params", "List String", _strs([a.arg for a in inner.args.args[1:]]),
           "_do_segmentation: its parameters after the table, in order")
    d = _calls(br.body, is_direct)
    if len(d) != 1 or d[0].keywords or not all(isinstance(a, ast.Name) for a in d[0].args) or d[0].args[0].id != table:
        raise Bad("the direct call is not _do_segmentation(<table>, <names...>)")
    o.defn("src_segment_whole_args", "List String", _strs([a.id for a in d[0].args[1:]]),
           "do_segmentation: the arguments of the whole-table call after the table, in order")
    rets = [s for s in br.orelse for a in ast.walk(s) if isinstance(a, ast.Assign) and len(a.targets) == 1
            and isinstance(a.targets[0], ast.Name) and m[0] in list(ast.walk(a.value))
            and isinstance(a.value, ast.Call) and isinstance(a.value.func, ast.Name) and a.value.func.id == "list"
            and a.value.args and a.value.args[0] is m[0]]
    rname = None
    for s in br.orelse:
        for a in ast.walk(s):
            if isinstance(a, ast.Assign) and len(a.targets) == 1 and isinstance(a.targets[0], ast.Name) \
                    and isinstance(a.value, ast.Call) and isinstance(a.value.func, ast.Name) and a.value.func.id == "list" \
                    and len(a.value.args) == 1 and a.value.args[0] is m[0]:
                rname = a.targets[0].id
    last = br.orelse[-1]
    if not (rname and isinstance(last, ast.Assign) and isinstance(last.value, ast.Call) and isinstance(last.value.func, ast.Attribute)
            and isinstance(last.value.func.value, ast.Name) and last.value.func.value.id == table
            and len(last.value.args) == 1 and isinstance(last.value.args[0], ast.Name) and last.value.args[0].id == rname):
        raise Bad("the pool's results are not joined by `<cna> = <table>.<join>(<rets>)` at the end of the branch")
    o.defn("src_segment_join", "String", lstr(last.value.func.attr), "do_segmentation: how the per-unit results are joined")
    nxt = fn.body[fn.body.index(br) + 1]
    if not (isinstance(nxt, ast.Expr) and isinstance(nxt.value, ast.Call) and isinstance(nxt.value.func, ast.Attribute)
            and isinstance(nxt.value.func.value, ast.Name) and nxt.value.func.value.id == last.targets[0].id and not nxt.value.args):
        raise Bad("the statement after the branch is not `<cna>.<post>()`")
    o.defn("src_segment_post", "String", lstr(nxt.value.func.attr), "do_segmentation: what is done to the joined table")
    uses = set()
    for n in ast.walk(fn):
        if isinstance(n, ast.JoinedStr) and any(isinstance(x, ast.Name) and x.id == "processes" for x in ast.walk(n)):
            uses.add("log")
        elif isinstance(n, ast.Call) and any(isinstance(x, ast.Name) and x.id == "processes"
                                             for a in list(n.args) + [k.value for k in n.keywords] for x in ast.walk(a)):
            f = n.func
            uses.add(f.attr if isinstance(f, ast.Attribute) else getattr(f, "id", "?"))
    stray = [n for n in ast.walk(fn) if isinstance(n, ast.Name) and n.id == "processes" and isinstance(n.ctx, ast.Store)]
    if stray:
        uses.add("rebound")
    o.defn("src_segment_processes_uses", "List String", _strs(sorted(uses)), "do_segmentation: where `processes` is read")
    meth = None
    for s in tree.body:
        if isinstance(s, ast.Assign) and len(s.targets) == 1 and getattr(s.targets[0], "id", None) == "SEGMENT_METHODS":
            meth = list(ast.literal_eval(s.value))
    if meth is None:
        raise Bad("SEGMENT_METHODS not found")
    o.defn("src_segment_methods", "List String", _strs(meth), "segmentation.SEGMENT_METHODS")
