"""cnvlib/commands.py: the `access` sub-command's glue -> Generated/AccessCliConsts.lean

`_cmd_access` must be `access.do_access(args.<a>, args.<b>, args.<c>)` followed by `tabio.write(<result>, args.output,
<format>)`; the argparse defaults of `-s/--min-gap-size` and `-x/--exclude` are read from the `P_access.add_argument`
calls.  The driver uses ACCESS_CLI_DEFAULT_MIN_GAP when a command-line case leaves `-s` out (the command line has its
OWN default, independent of do_access's), so that a change of either default is followed, not reported.
Any other shape raises: the check treats that as a broken tie."""
import ast
import os
from ..translate import parse, find_func

NAME = "AccessCliConsts"


def extract(repo, o):
    tree, _ = parse(os.path.join(repo, "cnvlib/commands.py"))
    fn = find_func(tree, "_cmd_access")
    body = [s for s in fn.body if not (isinstance(s, ast.Expr) and isinstance(s.value, ast.Constant))]
    if len(body) != 2 or not isinstance(body[0], ast.Assign) or not isinstance(body[1], ast.Expr):
        raise ValueError("_cmd_access is no longer `x = do_access(...); tabio.write(x, ...)`")
    call = body[0].value
    if not (isinstance(call, ast.Call) and ast.unparse(call.func) in ("access.do_access", "do_access")):
        raise ValueError("_cmd_access does not call access.do_access")
    atree, _ = parse(os.path.join(repo, "cnvlib/access.py"))
    params = [a.arg for a in find_func(atree, "do_access").args.args]

    def dest(e):
        if isinstance(e, ast.Attribute) and isinstance(e.value, ast.Name) and e.value.id == "args":
            return e.attr
        raise ValueError("do_access argument is not a plain `args.<dest>`: " + ast.unparse(e))
    pairs = [(params[k], dest(a)) for k, a in enumerate(call.args)] + [(k.arg, dest(k.value)) for k in call.keywords]
    res = body[0].targets[0].id
    w = body[1].value
    if not (isinstance(w, ast.Call) and ast.unparse(w.func) == "tabio.write" and len(w.args) == 3
            and isinstance(w.args[0], ast.Name) and w.args[0].id == res and dest(w.args[1]) == "output"
            and isinstance(w.args[2], ast.Constant)):
        raise ValueError("_cmd_access does not end with tabio.write(<result>, args.output, <format>)")
    o.defn("ACCESS_CLI_CALL", "List (String × String)",
           "[" + ", ".join(f'("{p}", "{d}")' for p, d in pairs) + "]",
           "commands._cmd_access: (do_access parameter, argparse dest) for every argument it passes")
    o.defn("ACCESS_CLI_WRITE_FORMAT", "String", f'"{w.args[2].value}"', "format of the written table")
    # argparse declarations
    found = {}
    for node in ast.walk(tree):
        if isinstance(node, ast.Call) and isinstance(node.func, ast.Attribute) and node.func.attr == "add_argument" \
                and isinstance(node.func.value, ast.Name) and node.func.value.id == "P_access":
            flags = [a.value for a in node.args if isinstance(a, ast.Constant)]
            kw = {k.arg: k.value for k in node.keywords}
            for f in flags:
                found[f] = kw
    s = found.get("--min-gap-size") or found.get("-s")
    x = found.get("--exclude") or found.get("-x")
    if s is None or x is None:
        raise ValueError("access: -s / -x are no longer declared")
    if ast.unparse(s.get("type", ast.Constant(None))) != "int":
        raise ValueError("access -s is no longer an int")
    o.defn("ACCESS_CLI_DEFAULT_MIN_GAP", "Int", str(int(ast.literal_eval(s["default"]))),
           "argparse default of the `--min-gap-size` option of `access`")
    o.defn("ACCESS_CLI_EXCLUDE_ACTION", "String", f'"{ast.literal_eval(x["action"])}"', "argparse action of `-x`")
    o.defn("ACCESS_CLI_EXCLUDE_DEFAULT_EMPTY", "Bool",
           "true" if ast.literal_eval(x.get("default", ast.Constant(None))) == [] else "false",
           "`-x` left out means no exclude file")
