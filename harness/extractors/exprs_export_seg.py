"""Source bodies -> Generated/ExprsExportSeg.lean (C20, round 5b; reader: harness/segread_c20.py).

* skgenome/tabio/seg.py format_seg -> src_seg_columns (the output columns without / with a `probes` column) and one
  definition per output column of a row: src_seg_ID, src_seg_chrom, src_seg_loc_start, src_seg_loc_end,
  src_seg_num_mark, src_seg_seg_mean
* create_chrom_ids -> src_create_chrom_ids : the mapping as a function of the first sample's chromosome column
* write_seg, `if chrom_ids in (None, True):` -> src_write_seg_enumerates
* cnvlib/export.py export_seg -> src_export_seg_default (and: chrom_ids is handed to write_seg unchanged)

Props/C20SegSrc.lean proves that Model/Export.lean's formatSeg / createChromIds / exportSeg ARE these."""
import os

from ..translate import parse, find_func, lstr
from ..segread_c20 import (read_format_seg, read_create_chrom_ids, read_write_seg_test, read_export_seg_default,
                           ROW_PARAMS, Unreadable)

NAME = "ExprsExportSeg"
IMPORTS = ["CnvVerif.Model.Export"]
WANT = [("ID", "src_seg_ID", "String"), ("chrom", "src_seg_chrom", "String"), ("loc.start", "src_seg_loc_start", "Int"),
        ("loc.end", "src_seg_loc_end", "Int"), ("num.mark", "src_seg_num_mark", "Int"), ("seg.mean", "src_seg_seg_mean", "Rat")]
ROW_TYPE = "String → List (String × Nat) → String → Int → Int → Int → Rat → "


def extract(repo, o):
    o.lines.append("set_option linter.unusedVariables false")
    tree, _src = parse(os.path.join(repo, "skgenome/tabio/seg.py"), inline=False)
    c0, c1, cells = read_format_seg(find_func(tree, "format_seg"))
    o.defn("src_seg_columns", "Bool → List String",
           "fun has_probes => if has_probes then [" + ", ".join(lstr(c) for c in c1) + "] else ["
           + ", ".join(lstr(c) for c in c0) + "]",
           "tabio.seg.format_seg: the columns of the table it returns, with / without a `probes` column in dframe")
    for col, name, typ in WANT:
        if col not in cells:
            raise Unreadable(f"format_seg writes no column {col!r} (columns: {c1})")
        lean, t = cells[col]
        if t != typ:
            raise Unreadable(f"column {col!r} has type {t}, expected {typ}")
        o.defn(name, ROW_TYPE + typ, ROW_PARAMS + lean, f"tabio.seg.format_seg: column {col!r} of a row")
    extra = [c for c in c1 if c not in {w[0] for w in WANT}]
    if extra:
        raise Unreadable(f"format_seg writes columns the model does not have: {extra}")
    o.defn("src_create_chrom_ids", "List String → List (String × Nat)",
           read_create_chrom_ids(find_func(tree, "create_chrom_ids")),
           "tabio.seg.create_chrom_ids as a function of segments.chromosome")
    o.defn("src_write_seg_enumerates", "Option Bool → Bool", read_write_seg_test(find_func(tree, "write_seg")),
           "tabio.seg.write_seg: the test under which chrom_ids = create_chrom_ids(first)")
    etree, _ = parse(os.path.join(repo, "cnvlib/export.py"), inline=False)
    o.defn("src_export_seg_default", "Option Bool", read_export_seg_default(find_func(etree, "export_seg")),
           "export.export_seg: the default of chrom_ids, which is handed to write_seg unchanged")
