"""Source expressions -> Generated/ExprsStats.lean (see harness/exprtrans.py for the reading of the Python subset;
`emit_values` reads the VALUE of one expression inside a function through a backward slice).
Props/C17Src.lean proves that the hand-written model formulas of Model/Stats.lean equal these generated ones, so an
edit to a formula in /repo changes the generated term and breaks that proof obligation."""
from ..exprtrans import emit_values

NAME = "ExprsStats"
SEG = "cnvlib/segmetrics.py"
SPECS = [
    (SEG, "make_pi_func.pi_func", ("call_arg", "np.percentile", 1), "src_pi_pct_lo", {"component": 0},
     "segmetrics.make_pi_func: lower percentile level handed to np.percentile"),
    (SEG, "make_pi_func.pi_func", ("call_arg", "np.percentile", 1), "src_pi_pct_hi", {"component": 1},
     "segmetrics.make_pi_func: upper percentile level handed to np.percentile"),
    (SEG, "confidence_interval_bootstrap", ("call_arg", "np.percentile", 1), "src_ci_pct_lo", {"component": 0},
     "segmetrics.confidence_interval_bootstrap: lower percentile level of the bootstrap distribution"),
    (SEG, "confidence_interval_bootstrap", ("call_arg", "np.percentile", 1), "src_ci_pct_hi", {"component": 1},
     "segmetrics.confidence_interval_bootstrap: upper percentile level of the bootstrap distribution"),
    (SEG, "confidence_interval_bootstrap", ("local", "bootstraps"), "src_ci_bootstraps", {},
     "segmetrics.confidence_interval_bootstrap: number of replicates actually drawn (the alpha guard is a precondition)"),
    ("cnvlib/bintest.py", "z_prob", ("local", "p"), "src_z_prob", {"columns": True, "sort_params": True},
     "bintest.z_prob, one bin, before the multiple-testing adjustment; sqrt and norm_cdf are opaque"),
    ("cnvlib/descriptives.py", "mean_squared_error", ("return_mean",), "src_mean_squared_error",
     {"absent": ["initial"], "mean": True},
     "descriptives.mean_squared_error as segmetrics calls it (no `initial`): the averaged term, one element"),
]


def extract(repo, o):
    emit_values(repo, o, SPECS)
