"""The per-row threshold scan of call.absolute_threshold -> Generated/ExprsScan.lean (`scan_rows` of
harness/exprtrans.py).  Props/C02SrcScan.lean proves that the model's `thresholdCall` IS this recursion, for every
threshold list."""
import ast
import os
from ..exprtrans import scan_rows, Untranslatable

NAME = "ExprsScan"


def extract(repo, o):
    from ..translate import parse, find_func
    lean = "src_absolute_threshold"
    try:
        tree, _src = parse(os.path.join(repo, "cnvlib/call.py"))
        fn = find_func(tree, "absolute_threshold")
        callees = {n.name: n for n in tree.body if isinstance(n, ast.FunctionDef) and n.name != fn.name}
        text = scan_rows(fn, callees, lean, ["log2", "log2_pow2", "ploidy", "ref_copies"],
                         {"_reference_copies_pure": "ref_copies"}, "call.absolute_threshold")
    except (Untranslatable, KeyError, OSError, SyntaxError) as e:
        o.lines.append(f"-- NOT TRANSLATED: cnvlib/call.py:absolute_threshold: {type(e).__name__}: {str(e)[:200]}".replace("\n", " "))
        o.info[lean] = {"error": str(e)[:200]}
        return
    o.lines.append(text)
    o.info[lean] = {"ok": True}
