"""cnvlib/coverage.py source expressions -> Generated/ExprsCov.lean (reading rules: harness/exprtrans.py).

The depth and log2 formulas of C09 are not functions of their own in the source: they sit inside
`region_depth_count` (a conditional expression and one element of the returned row) and at the end of
`interval_coverages_pileup` (masked pandas updates), and the `-Q` decision inside `bedcov`.  This extractor cuts
them out BY SHAPE, wraps each into a tiny synthetic function and hands that to the expression translator:

  src_count_depth  (bases start end_)        the last element of the row `region_depth_count` returns, locals read through
  src_count_log2   (depth depth_log2)        the element before it; `math.log(depth, 2)` = parameter depth_log2
  src_pileup_depth (basecount start end_)    column `depth` after the statements that follow the name-column block of
  src_pileup_log2  (basecount start end_ depth_log2)   `interval_coverages_pileup`, read elementwise:
        table.c / table["c"] / table.loc[m, "c"] = column c (where m holds); table.assign(c=v) sets column c;
        table.loc[m, "c"] = e  = "where m holds c becomes e"
  src_bedcov_minq  (min_mapq)                the mapping-quality cut-off samtools works with: the value after "-Q"
        when the guarding condition of `cmd.extend(["-Q", str(...)])` holds, else samtools' default 0

`end` is a Lean keyword: the column / variable `end` is called `end_`.  Props/C09Src.lean proves that the model's
`depthOf`, `mkRow` and cut-off are these expressions.
"""
import ast
import copy
import os

from ..exprtrans import Fn, Untranslatable
from ..translate import parse, find_func, expand, module_consts

NAME = "ExprsCov"


def _mkfn(name, params, body):
    src = "def %s(%s):\n    pass\n" % (name, ", ".join(params))
    fn = ast.parse(src).body[0]
    fn.body = body
    return ast.fix_missing_locations(fn)


class _Consts(ast.NodeTransformer):
    def __init__(self, consts):
        self.consts = consts

    def visit_Name(self, node):
        if isinstance(node.ctx, ast.Load) and node.id in self.consts:
            return ast.copy_location(ast.Constant(self.consts[node.id]), node)
        return node


class _Rename(ast.NodeTransformer):
    def visit_Name(self, node):
        if node.id == "end":
            return ast.copy_location(ast.Name(id="end_", ctx=node.ctx), node)
        return node


def _count_exprs(tree, consts):
    fn = find_func(tree, "region_depth_count")
    rets = [n for n in ast.walk(fn) if isinstance(n, ast.Return) and n.value is not None
            and not any(n in ast.walk(g) for g in ast.walk(fn) if isinstance(g, ast.FunctionDef) and g is not fn)]
    if len(rets) != 1 or not (isinstance(rets[0].value, ast.Tuple) and len(rets[0].value.elts) == 2):
        raise Untranslatable("region_depth_count does not end in `return count, row`")
    row = rets[0].value.elts[1]
    if isinstance(row, ast.Name):
        binds = [n.value for n in ast.walk(fn) if isinstance(n, ast.Assign) and len(n.targets) == 1
                 and isinstance(n.targets[0], ast.Name) and n.targets[0].id == row.id]
        if len(binds) != 1:
            raise Untranslatable("row is bound more than once")
        row = binds[0]
    if not (isinstance(row, ast.Tuple) and len(row.elts) == 6):
        raise Untranslatable("the row is not a 6-tuple (chrom, start, end, gene, log2, depth)")
    log2_e, depth_e = row.elts[4], row.elts[5]
    dname = depth_e.id if isinstance(depth_e, ast.Name) else None
    depth_x = expand(depth_e, fn, keep=("bases",))
    # the accumulator of aligned bases is the one free variable that is not a parameter of the function: whatever
    # it is called in the source, it is `bases` here
    fparams = {a.arg for a in fn.args.args}
    free = []
    for n in ast.walk(depth_x):
        if isinstance(n, ast.Name) and n.id not in fparams and n.id not in free:
            free.append(n.id)
    if len(free) == 1 and free[0] != "bases":
        acc = free[0]

        class A(ast.NodeTransformer):
            def visit_Name(self, node):
                return ast.copy_location(ast.Name(id="bases", ctx=node.ctx), node) if node.id == acc else node
        depth_x = A().visit(depth_x)
    log2_x = expand(log2_e, fn, keep=(dname,) if dname else ())
    if dname and dname != "depth":  # a renamed local reads the same
        class R(ast.NodeTransformer):
            def visit_Name(self, node):
                return ast.copy_location(ast.Name(id="depth", ctx=node.ctx), node) if node.id == dname else node
        log2_x = R().visit(log2_x)
    out = []
    for name, params, e in (("src_count_depth", ["bases", "start", "end_"], depth_x),
                            ("src_count_log2", ["depth", "depth_log2"], log2_x)):
        e = _Rename().visit(_Consts(consts).visit(copy.deepcopy(e)))
        out.append((name, _mkfn(name, params, [ast.Return(value=e)])))
    return out


class _Columns(ast.NodeTransformer):
    """pandas column access on `table`, read elementwise"""

    def _col(self, node):
        # table.c | table["c"] -> ("c", None);  table.loc[m, "c"] -> ("c", m)
        if isinstance(node, ast.Attribute) and isinstance(node.value, ast.Name) and node.value.id == "table" \
                and node.attr not in ("loc", "assign"):
            return node.attr, None
        if isinstance(node, ast.Subscript) and isinstance(node.value, ast.Name) and node.value.id == "table" \
                and isinstance(node.slice, ast.Constant) and isinstance(node.slice.value, str):
            return node.slice.value, None
        if isinstance(node, ast.Subscript) and isinstance(node.value, ast.Attribute) and node.value.attr == "loc" \
                and isinstance(node.value.value, ast.Name) and node.value.value.id == "table" \
                and isinstance(node.slice, ast.Tuple) and len(node.slice.elts) == 2 \
                and isinstance(node.slice.elts[0], ast.Name) and isinstance(node.slice.elts[1], ast.Constant):
            return node.slice.elts[1].value, node.slice.elts[0]
        return None

    def _name(self, col, mask, ctx):
        base = ast.Name(id=col, ctx=ast.Load() if mask is not None else ctx)
        if mask is None:
            return base
        return ast.Subscript(value=base, slice=ast.Name(id=mask.id, ctx=ast.Load()), ctx=ctx)

    def visit_Attribute(self, node):
        c = self._col(node)
        if c:
            return ast.copy_location(self._name(c[0], c[1], node.ctx), node)
        return self.generic_visit(node)

    def visit_Subscript(self, node):
        c = self._col(node)
        if c:
            return ast.copy_location(self._name(c[0], c[1], node.ctx), node)
        return self.generic_visit(node)


def _pileup_stmts(tree, consts):
    fn = find_func(tree, "interval_coverages_pileup")
    last_if = max(i for i, st in enumerate(fn.body) if isinstance(st, ast.If))
    tail = fn.body[last_if + 1:]
    if not tail or not isinstance(tail[-1], ast.Return) or ast.unparse(tail[-1].value) != "table":
        raise Untranslatable("interval_coverages_pileup does not end in `return table`")
    stmts = []
    for st in tail[:-1]:
        if isinstance(st, ast.Expr):
            continue  # logging, docstrings
        if isinstance(st, ast.Assign) and len(st.targets) == 1 and isinstance(st.targets[0], ast.Name) \
                and st.targets[0].id == "table" and isinstance(st.value, ast.Call) \
                and ast.unparse(st.value.func) == "table.assign" and not st.value.args:
            for kw in st.value.keywords:
                stmts.append(ast.Assign(targets=[ast.Name(id=kw.arg, ctx=ast.Store())], value=kw.value))
            continue
        if not isinstance(st, ast.Assign):
            raise Untranslatable("pileup tail: " + ast.unparse(st)[:80])
        stmts.append(st)
    stmts = [_Rename().visit(_Columns().visit(_Consts(consts).visit(copy.deepcopy(st)))) for st in stmts]
    for st in stmts:
        if "table" in {n.id for n in ast.walk(st) if isinstance(n, ast.Name)}:
            raise Untranslatable("pileup tail: a use of `table` that is not a column access: " + ast.unparse(st)[:80])
    return stmts


def _bedcov_minq(tree):
    fn = find_func(tree, "bedcov")
    for st in fn.body:
        if isinstance(st, ast.If) and not st.orelse and len(st.body) == 1 and isinstance(st.body[0], ast.Expr):
            call = st.body[0].value
            if isinstance(call, ast.Call) and isinstance(call.func, ast.Attribute) and call.func.attr in ("extend", "__iadd__") \
                    and len(call.args) == 1 and isinstance(call.args[0], (ast.List, ast.Tuple)):
                el = call.args[0].elts
                if len(el) == 2 and isinstance(el[0], ast.Constant) and el[0].value == "-Q" \
                        and isinstance(el[1], ast.Call) and ast.unparse(el[1].func) == "str" and len(el[1].args) == 1:
                    body = [ast.If(test=st.test, body=[ast.Return(value=el[1].args[0])], orelse=[]),
                            ast.Return(value=ast.Constant(0))]
                    return _mkfn("src_bedcov_minq", ["min_mapq"], body)
    raise Untranslatable("bedcov: `if <cond>: cmd.extend([\"-Q\", str(<value>)])` not found")


def extract(repo, o):
    specs = []
    try:
        tree, _src = parse(os.path.join(repo, "cnvlib/coverage.py"))
        env, _text = module_consts(os.path.join(repo, "cnvlib/params.py"))
        consts = {"NULL_LOG2_COVERAGE": env["NULL_LOG2_COVERAGE"]}
    except (OSError, SyntaxError, KeyError) as e:
        o.lines.append(f"-- NOT TRANSLATED: cnvlib/coverage.py: {type(e).__name__}: {str(e)[:200]}")
        return

    def attempt(lean, build, comment):
        try:
            fn = build()
            text, params = Fn(fn).translate(lean, comment)
        except (Untranslatable, KeyError, ValueError, IndexError, AttributeError) as e:
            o.lines.append(f"-- NOT TRANSLATED: cnvlib/coverage.py:{lean}: {type(e).__name__}: {str(e)[:200]}".replace("\n", " "))
            o.info[lean] = {"error": str(e)[:200]}
            return
        o.lines.append(text)
        o.info[lean] = {"params": params}

    cache = {}

    def count(i):
        if "c" not in cache:
            cache["c"] = _count_exprs(tree, consts)
        return cache["c"][i][1]

    attempt("src_count_depth", lambda: count(0),
            "region_depth_count: the depth element of the returned row (locals read through)")
    attempt("src_count_log2", lambda: count(1),
            "region_depth_count: the log2 element of the returned row; depth_log2 stands for math.log(depth, 2)")

    def pile(col):
        st = _pileup_stmts(tree, consts)
        if col == "depth":  # the statements that only concern the log2 column are not part of this expression
            st = [x for x in st if "log2" not in {n.id for t in x.targets for n in ast.walk(t) if isinstance(n, ast.Name)}]
        return _mkfn("f", ["basecount", "start", "end_"], st + [ast.Return(value=ast.Name(id=col, ctx=ast.Load()))])
    attempt("src_pileup_depth", lambda: pile("depth"),
            "interval_coverages_pileup: column `depth` of the returned table, elementwise")
    attempt("src_pileup_log2", lambda: pile("log2"),
            "interval_coverages_pileup: column `log2` of the returned table; depth_log2 stands for np.log2(depth)")
    attempt("src_bedcov_minq", lambda: _bedcov_minq(tree),
            "bedcov: the mapping-quality cut-off samtools bedcov works with (its default 0 unless -Q is passed)")
