"""cnvlib/coverage.py + cnvlib/parallel.py: read filter, chunk size, executor calls -> Generated/CoverageConsts.lean

C09 names the flags that keep a read from being counted (duplicate, secondary, unmapped, QC-fail), the
mapping-quality cut-off (reads *below* it are dropped) and the chunking of the regions file.  These live in
the source as the body of `region_depth_count.filter_read`, as the `-Q` argument handed to `bedcov`, as the
default of `to_chunks(chunk_size=...)` and as the executor method that fans the chunks out.  The extractor
checks the *shape* of those expressions and emits the names/numbers; another shape raises (= broken tie).
"""
import ast
import os

from ..translate import parse, find_func, func_defaults, lstr

NAME = "CoverageConsts"

_OPS = {ast.Lt: "Lt", ast.LtE: "LtE", ast.Gt: "Gt", ast.GtE: "GtE"}


def _drop_condition(tree):
    """the disjunction under which region_depth_count does NOT count a read, in any of its equivalent spellings:
    a nested `filter_read` returning `not (a or b ...)`, or inside the fetch loop `if a or b ...: continue`, or
    `if not (a or b ...): <count>`"""
    outer = find_func(tree, "region_depth_count")

    def is_or(e):
        return isinstance(e, ast.BoolOp) and isinstance(e.op, ast.Or)

    def negated_or(e):
        return e.operand if isinstance(e, ast.UnaryOp) and isinstance(e.op, ast.Not) and is_or(e.operand) else None
    for n in ast.walk(outer):
        if isinstance(n, ast.FunctionDef) and n is not outer:
            rets = [r for r in ast.walk(n) if isinstance(r, ast.Return)]
            if len(rets) == 1 and negated_or(rets[0].value) is not None:
                return negated_or(rets[0].value)
    for loop in [n for n in ast.walk(outer) if isinstance(n, ast.For)]:
        for st in loop.body:
            if isinstance(st, ast.If) and not st.orelse:
                if is_or(st.test) and len(st.body) == 1 and isinstance(st.body[0], ast.Continue):
                    return st.test
                if negated_or(st.test) is not None:
                    return negated_or(st.test)
    raise ValueError("region_depth_count: the read filter `not (a or b or ...)` was not found in a known shape")


def extract(repo, o):
    tree, src = parse(os.path.join(repo, "cnvlib/coverage.py"))
    disj = _drop_condition(tree)

    class _E:  # keep the code below as it was written for the `return not (...)` shape
        operand = disj
    e = _E()
    attrs, cmp_ops = [], []
    for v in e.operand.values:
        if isinstance(v, ast.Attribute) and isinstance(v.value, ast.Name) and v.value.id == "read":
            attrs.append(v.attr)
        elif (isinstance(v, ast.Compare) and len(v.ops) == 1 and isinstance(v.left, ast.Attribute)
              and v.left.attr in ("mapq", "mapping_quality") and isinstance(v.comparators[0], ast.Name)
              and v.comparators[0].id == "min_mapq" and type(v.ops[0]) in _OPS):
            cmp_ops.append(_OPS[type(v.ops[0])])
        else:
            raise ValueError("filter_read: unknown disjunct " + ast.unparse(v))
    if len(cmp_ops) != 1:
        raise ValueError("filter_read: expected one mapq comparison")
    o.defn("COUNT_FILTER_ATTRS", "List String", "[" + ", ".join(lstr(a) for a in attrs) + "]",
           "region_depth_count.filter_read: a read with any of these pysam attributes set is not counted")
    o.defn("COUNT_MAPQ_OP", "String", lstr(cmp_ops[0]),
           "region_depth_count.filter_read: a read is dropped when `read.mapq <op> min_mapq`")
    # the position test `start <= p < end` inside region_depth_count
    outer = find_func(tree, "region_depth_count")
    tests = [n for n in ast.walk(outer) if isinstance(n, ast.Compare) and len(n.ops) == 2
             and isinstance(n.comparators[0], ast.Name) and n.comparators[0].id == "p"]
    if len(tests) != 1 or not (isinstance(tests[0].left, ast.Name) and tests[0].left.id == "start"
                               and isinstance(tests[0].comparators[1], ast.Name)
                               and tests[0].comparators[1].id == "end"):
        raise ValueError("region_depth_count: position test is not `start <op> p <op> end`")
    o.defn("COUNT_POS_OPS", "List String",
           "[" + ", ".join(lstr(_OPS[type(x)]) for x in tests[0].ops) + "]",
           "region_depth_count: `start <op0> p <op1> end` selects the aligned positions inside the bin")
    # bedcov: `-Q str(min_mapq)` is passed when min_mapq is truthy and > 0; no other samtools option but --reference
    bc = find_func(tree, "bedcov")
    flags = sorted({c.value for n in ast.walk(bc) if isinstance(n, ast.List) for c in n.elts
                    if isinstance(c, ast.Constant) and isinstance(c.value, str) and c.value.startswith("-")})
    o.defn("BEDCOV_OPTIONS", "List String", "[" + ", ".join(lstr(f) for f in flags) + "]",
           "every samtools-bedcov option cnvlib.coverage.bedcov can pass (no -j: deletions and ref-skips are covered; "
           "no -g, -G: htslib's default flag filter UNMAP,SECONDARY,QCFAIL,DUP)")
    # executor methods used by the two parallel sections
    calls = []
    for fname in ("interval_coverages_count", "interval_coverages_pileup"):
        fn = find_func(tree, fname)
        for n in ast.walk(fn):
            if (isinstance(n, ast.Call) and isinstance(n.func, ast.Attribute) and isinstance(n.func.value, ast.Name)
                    and n.func.value.id == "pool"):
                calls.append(n.func.attr)
    o.defn("COVERAGE_POOL_CALLS", "List String", "[" + ", ".join(lstr(c) for c in calls) + "]",
           "executor methods that fan out the per-chromosome / per-chunk work (`map` = results in submission order)")
    cc = [n for n in ast.walk(find_func(tree, "interval_coverages_pileup")) if isinstance(n, ast.Call)
          and isinstance(n.func, ast.Attribute) and n.func.attr == "concat"]
    ign = [k.value.value for c in cc for k in c.keywords if k.arg == "ignore_index" and isinstance(k.value, ast.Constant)]
    o.defn("PILEUP_CONCAT_IGNORE_INDEX", "Bool", "true" if ign == [True] else "false",
           "interval_coverages_pileup gathers chunk tables with pd.concat(chunks, ignore_index=True)")
    ptree, _ = parse(os.path.join(repo, "cnvlib/parallel.py"))
    d = func_defaults(find_func(ptree, "to_chunks"))
    o.defn("TO_CHUNKS_DEFAULT_SIZE", "Nat", str(int(d["chunk_size"])), "parallel.to_chunks(chunk_size=...)")
