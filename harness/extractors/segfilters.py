"""cnvlib/segfilters.py and the filter handling of cnvlib/call.py:do_call -> Generated/SegFilterConsts.lean

Structure constants of the segment filters (C14), re-read on every run:
* REQUIRE_COLUMNS   -- the columns each filter's `@require_column(...)` decorator demands, in source order;
* SQUASH_OUT_COLUMNS -- every column `squash_region` writes into its one-row result (all others are dropped);
* ENUM_CHANGES_CHAIN -- the pandas method chain `enumerate_changes` returns (each call unparsed);
* DO_CALL_PRE_FILTERS -- the tuple of filters `do_call` applies (and removes from the list) BEFORE calling.
"""
import ast
import os
from ..translate import parse, find_func, lstr

NAME = "SegFilterConsts"


def _strs(xs):
    return "[" + ", ".join(lstr(x) for x in xs) + "]"


def extract(repo, o):
    tree, _src = parse(os.path.join(repo, "cnvlib/segfilters.py"))
    req = []
    for n in tree.body:
        if isinstance(n, ast.FunctionDef):
            for d in n.decorator_list:
                if isinstance(d, ast.Call) and ast.unparse(d.func).split(".")[-1] == "require_column":
                    req.append((n.name, [ast.literal_eval(a) for a in d.args]))
    o.defn("REQUIRE_COLUMNS", "List (String × List String)",
           "[" + ", ".join(f"({lstr(f)}, {_strs(cs)})" for f, cs in req) + "]",
           "filter name, the columns its `@require_column` decorator demands")
    fn = find_func(tree, "squash_region")
    # the result is built in ONE dict `out`: keys of its literal, then every `out["k"] = ...`
    keys, name = [], None
    for n in ast.walk(fn):
        if isinstance(n, ast.Assign) and isinstance(n.value, ast.Dict) and len(n.targets) == 1 \
                and isinstance(n.targets[0], ast.Name):
            name = n.targets[0].id
            keys = [ast.literal_eval(k) for k in n.value.keys]
            break
    if name is None:
        raise ValueError("squash_region: no dict literal result")
    later = []
    for n in ast.walk(fn):
        if isinstance(n, ast.Assign):
            for t in n.targets:
                if isinstance(t, ast.Subscript) and isinstance(t.value, ast.Name) and t.value.id == name \
                        and isinstance(t.slice, ast.Constant):
                    later.append((t.lineno, t.slice.value))
    for _ln, k in sorted(later):
        if k not in keys:
            keys.append(k)
    o.defn("SQUASH_OUT_COLUMNS", "List String", _strs(keys), "every column squash_region writes")
    fe = find_func(tree, "enumerate_changes")
    ret = [s for s in fe.body if isinstance(s, ast.Return)]
    if len(ret) != 1:
        raise ValueError("enumerate_changes: expected a single return")
    chain, e = [], ret[0].value
    cmp_method = {ast.NotEq: "ne", ast.Eq: "eq", ast.Gt: "gt", ast.GtE: "ge", ast.Lt: "lt", ast.LtE: "le"}
    while True:
        if isinstance(e, ast.Call) and isinstance(e.func, ast.Attribute):
            chain.append(e.func.attr + "(" + ", ".join([ast.unparse(a) for a in e.args] +
                                                      [f"{k.arg}={ast.unparse(k.value)}" for k in e.keywords]) + ")")
            e = e.func.value
        elif isinstance(e, ast.Compare) and len(e.ops) == 1 and type(e.ops[0]) in cmp_method:
            # `x != 0` is read as `x.ne(0)` (the operator spelling of the same pandas method)
            chain.append(cmp_method[type(e.ops[0])] + "(" + ast.unparse(e.comparators[0]) + ")")
            e = e.left
        else:
            break
    chain.append(ast.unparse(e))
    o.defn("ENUM_CHANGES_CHAIN", "List String", _strs(reversed(chain)),
           "enumerate_changes: the receiver and the method chain it returns")
    tree2, _ = parse(os.path.join(repo, "cnvlib/call.py"))
    fd = find_func(tree2, "do_call")
    pre = None
    for n in ast.walk(fd):
        if isinstance(n, ast.For) and isinstance(n.iter, (ast.Tuple, ast.List)) \
                and any(isinstance(c, ast.Call) and isinstance(c.func, ast.Attribute) and c.func.attr == "remove"
                        for c in ast.walk(n)):
            pre = [ast.literal_eval(x) for x in n.iter.elts]
    if pre is None:
        raise ValueError("do_call: the loop over the pre-call filters was not found")
    o.defn("DO_CALL_PRE_FILTERS", "List String", _strs(pre),
           "do_call: filters applied, in this order, before calling (and removed from the list)")
