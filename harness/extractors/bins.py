"""cnvlib/antitarget.py + cnvlib/target.py: margins, telomere size, default sizes -> Generated/BinsConsts.lean

Everything C12 names as a number lives in the source as an expression over `params.py` constants
(`pad_size = 2 * INSERT_SIZE`, `min_bin_size = 2 * int(avg_bin_size * 2**MIN_REF_COVERAGE)`) or as a
literal inside a function body (`TELOMERE_SIZE = 150000`, `subdivide(avg_size, 0)`).  The extractor
checks the *shape* of those expressions (the Lean model hard-wires the shape, e.g. "floor of avg times
a scale, times a factor") and emits the numbers.  An expression of another shape raises: the check
treats that as a broken tie.
"""
import ast
import os
from fractions import Fraction

from ..translate import parse, find_func, func_defaults, module_consts, rat, lstr, expand

NAME = "BinsConsts"


def _assign_in(fn, name):
    for n in ast.walk(fn):
        if isinstance(n, ast.Assign) and len(n.targets) == 1 and getattr(n.targets[0], "id", None) == name:
            return n.value
    raise KeyError(f"{fn.name}: no assignment to {name}")


def _int_times_name(expr, what):
    """`k * NAME` or `NAME * k` -> (k, NAME)"""
    if isinstance(expr, ast.BinOp) and isinstance(expr.op, ast.Mult):
        a, b = expr.left, expr.right
        if isinstance(a, ast.Constant) and isinstance(a.value, int) and isinstance(b, ast.Name):
            return a.value, b.id
        if isinstance(b, ast.Constant) and isinstance(b.value, int) and isinstance(a, ast.Name):
            return b.value, a.id
    raise ValueError(f"{what} is not `int * NAME`: {ast.unparse(expr)}")


def _resize_sign(call, what):
    """`x.resize_ranges(pad_size)` -> 1, `x.resize_ranges(-pad_size)` -> -1"""
    if len(call.args) != 1 or call.keywords:
        raise ValueError(f"{what}: resize_ranges call has an unknown shape: {ast.unparse(call)}")
    a = call.args[0]
    if isinstance(a, ast.Name) and a.id == "pad_size":
        return 1
    if isinstance(a, ast.UnaryOp) and isinstance(a.op, ast.USub) and isinstance(a.operand, ast.Name) \
            and a.operand.id == "pad_size":
        return -1
    raise ValueError(f"{what}: resize_ranges argument is not +-pad_size: {ast.unparse(call)}")


def extract(repo, o):
    penv, _ = module_consts(os.path.join(repo, "cnvlib/params.py"))
    tree, _src = parse(os.path.join(repo, "cnvlib/antitarget.py"))

    # --- get_antitargets: pad_size, TELOMERE_SIZE, the resize/subtract/subdivide chain
    ga = find_func(tree, "get_antitargets")
    k, nm = _int_times_name(_assign_in(ga, "pad_size"), "pad_size")
    if nm != "INSERT_SIZE":
        raise ValueError(f"pad_size is not a multiple of INSERT_SIZE but of {nm}")
    o.defn("ANTI_PAD_FACTOR", "Int", str(int(k)), "cnvlib/antitarget.py get_antitargets: pad_size = <this> * INSERT_SIZE")
    o.defn("ANTI_PAD", "Int", f"({int(k)} * {int(penv['INSERT_SIZE'])} : Int)",
           "the margin pad_size = ANTI_PAD_FACTOR * params.INSERT_SIZE")
    # the telomere allowance: the second argument of guess_chromosome_regions(targets, <it>) -- a local, a
    # module-level constant or a constant of params.py
    gcr = [n for n in ast.walk(ga) if isinstance(n, ast.Call) and getattr(n.func, "id", None) == "guess_chromosome_regions"
           and len(n.args) == 2]
    if len(gcr) != 1:
        raise ValueError("get_antitargets: guess_chromosome_regions(targets, <telomere size>) not found")
    tel = expand(gcr[0].args[1], ga, tree)
    if isinstance(tel, ast.Name) and isinstance(penv.get(tel.id), int):
        tel = ast.Constant(value=penv[tel.id])
    if not (isinstance(tel, ast.Constant) and isinstance(tel.value, int)):
        raise ValueError("TELOMERE_SIZE is not an integer literal")
    o.defn("TELOMERE_SIZE", "Int", str(tel.value), "get_antitargets: TELOMERE_SIZE (guessed chromosome extents start here)")
    chain = expand(_assign_in(ga, "bg_arr"), ga, tree, keep=("pad_size",))   # also when written as named steps
    want = "accessible.resize_ranges({a}pad_size).subtract(targets.resize_ranges({t}pad_size)).subdivide(avg_bin_size, min_bin_size)"
    signs = {}
    for n in ast.walk(chain):
        if isinstance(n, ast.Call) and getattr(n.func, "attr", None) == "resize_ranges" \
                and isinstance(n.func.value, ast.Name):
            signs[n.func.value.id] = _resize_sign(n, "bg_arr")
    if set(signs) != {"accessible", "targets"}:
        raise ValueError("bg_arr: expected exactly accessible.resize_ranges(..) and targets.resize_ranges(..)")
    got = ast.unparse(chain).replace(" ", "")
    exp = want.format(a="-" if signs["accessible"] < 0 else "", t="-" if signs["targets"] < 0 else "").replace(" ", "")
    if got != exp:
        raise ValueError(f"bg_arr no longer is resize->subtract->subdivide: {ast.unparse(chain)}")
    o.defn("ANTI_ACCESS_RESIZE_SIGN", "Int", f"({signs['accessible']})", "accessible.resize_ranges(<sign> * pad_size)")
    o.defn("ANTI_TARGET_RESIZE_SIGN", "Int", f"({signs['targets']})", "targets.resize_ranges(<sign> * pad_size)")

    # --- do_antitarget: default sizes
    da = find_func(tree, "do_antitarget")
    d = func_defaults(da)
    o.defn("ANTI_DEFAULT_AVG", "Int", str(int(d["avg_bin_size"])), "do_antitarget default avg_bin_size")
    if d.get("min_bin_size", 0) is not None:
        raise ValueError("do_antitarget: min_bin_size default is no longer None")
    mexpr = expand(_assign_in(da, "min_bin_size"), da, tree)   # also when moved into a one-line helper
    # 2 * int(avg_bin_size * 2 ** MIN_REF_COVERAGE)
    ok = (isinstance(mexpr, ast.BinOp) and isinstance(mexpr.op, ast.Mult)
          and isinstance(mexpr.left, ast.Constant) and isinstance(mexpr.left.value, int)
          and isinstance(mexpr.right, ast.Call) and getattr(mexpr.right.func, "id", None) == "int"
          and len(mexpr.right.args) == 1)
    if ok:
        inner = mexpr.right.args[0]
        ok = (isinstance(inner, ast.BinOp) and isinstance(inner.op, ast.Mult)
              and isinstance(inner.left, ast.Name) and inner.left.id == "avg_bin_size"
              and isinstance(inner.right, ast.BinOp) and isinstance(inner.right.op, ast.Pow)
              and isinstance(inner.right.left, ast.Constant) and inner.right.left.value == 2
              and isinstance(inner.right.right, ast.Name))
    if not ok:
        raise ValueError(f"default min_bin_size is not `k * int(avg_bin_size * 2 ** NAME)`: {ast.unparse(mexpr)}")
    expo = penv[mexpr.right.args[0].right.right.id]
    scale = Fraction(2.0 ** expo)
    o.defn("ANTI_MIN_FACTOR", "Int", str(int(mexpr.left.value)), "do_antitarget: min_bin_size = <this> * int(avg * scale)")
    o.defn("ANTI_MIN_SCALE", "Rat", rat(scale),
           f"do_antitarget: scale = 2 ** params.{mexpr.right.args[0].right.right.id} (exact double)")

    # --- target.py
    ttree, _ = parse(os.path.join(repo, "cnvlib/target.py"))
    dt = find_func(ttree, "do_target")
    td = func_defaults(dt)
    avg = td["avg_size"]
    if isinstance(avg, str):
        avg = eval(compile(ast.parse(avg, mode="eval"), "target.py", "eval"), {"__builtins__": {}}, {})
    o.defn("TARGET_DEFAULT_AVG", "Rat", rat(Fraction(float(avg))), "do_target default avg_size (exact double of 200 / 0.75)")
    sub = [n for n in ast.walk(dt) if isinstance(n, ast.Call) and getattr(n.func, "attr", None) == "subdivide"]
    if len(sub) != 1 or len(sub[0].args) != 2 or not isinstance(sub[0].args[1], ast.Constant) \
            or not isinstance(sub[0].args[1].value, int) or ast.unparse(sub[0].args[0]) != "avg_size":
        raise ValueError("do_target: subdivide(avg_size, <int>) not found")
    o.defn("TARGET_SPLIT_MIN", "Int", str(sub[0].args[1].value), "do_target: tgt_arr.subdivide(avg_size, <this>)")
    fd = func_defaults(find_func(ttree, "filter_names"))
    o.defn("SHORTEN_EXCLUDE", "List String", "[" + ", ".join(lstr(s) for s in fd["exclude"]) + "]",
           "target.filter_names default exclude prefixes")
