"""cnvlib/descriptives.py:weighted_mad -> Generated/ExprsWmad.lean (see harness/wmadcall.py: the two calls of weighted_median
are read as the GENERATED `src_weighted_median`, each with the permutation its own argsort returned as a parameter).
Props/C19SrcWmad.lean proves the generated function equal to the model's `Desc.weightedMadCore` for all arguments."""
from ..wmadcall import emit

NAME = "ExprsWmad"
IMPORTS = ["CnvVerif.Generated.ExprsDesc"]
SPECS = [("cnvlib/descriptives.py", "weighted_mad", "src_weighted_mad",
          "descriptives.weighted_mad (behind its decorator); `order`, `order2` = the permutations the two argsort calls returned")]


def extract(repo, o):
    emit(repo, o, SPECS)
