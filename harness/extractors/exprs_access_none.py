"""`cnvlib/access.py:get_regions` in its INITIAL state -> Generated/ExprsAccessNone.lean (reading rules: top of
harness/looptrans_none.py).

`chrom = cursor = run_start = None` stands before `for line in infile:`.  Generated/ExprsAccess.lean reads the loop body
for states in which `chrom` / `cursor` hold values (after the first header); this file reads the SAME body for the state
the source initialises, with Python's `TypeError` on `None + int` as part of the term: a header leaves the `None` state,
a blank line keeps it, every other line raises.  Props/C13SrcNone.lean proves that the two generated definitions,
chained from the source's own initial state, ARE the hand model `getRegions` for EVERY file (no "starts with a header"
hypothesis), so the model's explicit `throw "TypeError"` is no longer an assumption about the source."""
from ..looptrans_none import emit_none_loop

NAME = "ExprsAccessNone"
IMPORTS = ["CnvVerif.Model.PyPrims"]


def extract(repo, o):
    o.lines.append("set_option linter.unusedVariables false\nopen CnvVerif\n")
    emit_none_loop(repo, o, "cnvlib/access.py", "get_regions", "src_get_regions_none", ("line",),
                   state=[("chrom", "List Char"), ("cursor", "Nat"), ("run_start", "Option Nat")],
                   elem=[("line", "List Char")], params=[],
                   ytype="(List Char × Nat × Nat)",
                   comment="access.get_regions, `for line in infile:` from `chrom = cursor = run_start = None`")
