"""Source expressions -> Generated/ExprsWing.lean (see harness/exprtrans.py for the reading of the Python subset).
Props prove that the hand-written model functions equal these generated ones, so an edit to a formula in /repo
changes the generated term and breaks that proof obligation."""
from ..exprtrans import emit

NAME = "ExprsWing"
SPECS = [
    ("cnvlib/smoothing.py", "_width2wing", "src_width2wing", {"default_on_raise": "(-1 : Rat)"},
     "smoothing._width2wing with len(x) = x_len; -1 stands for the ValueError branch; the final assert is a precondition"),
]


def extract(repo, o):
    emit(repo, o, SPECS)
