"""The glue of cnvlib/coverage.py: `do_coverage` and `interval_coverages` as WHOLE procedures -> Generated/ExprsCovGlue.lean
(step-plan reader harness/stepplan.py: which effects run, in which order, under which tests).  Re-read on every run.
Props/C09SrcGlue.lean proves that the model's plans (Model/CoverageExt5Glue.lean) are these plans for every value of the
atoms.  The statement texts of the vocabulary carry the ARGUMENT PLUMBING (`by_count, min_mapq, processes, fasta` in this
order into `interval_coverages`; `min_mapq, processes` into the two algorithms): another order / another name is a statement
that is not in the vocabulary, the definition is replaced by a comment and the theorems stop checking.

Reading added here (part of the trusted base), for `interval_coverages` only: stepplan.py reads no `with` and no
`for .. else`.  The ONE `with` block of the function is compared, after removing its `logging.*` calls, with the texts
`EMPTY_BED_BLOCKS` below (open the regions file, leave the loop at the first line that is not blank, otherwise return the
empty table) and, when it is one of them, read as `if <bedBlank>: return CNA.from_rows([], meta_dict=meta)`, where the atom
`bedBlank` stands for "every line of the regions file is blank".  Any other `with` block is not translated.
Statements mapped to None feed the two log lines only (timing, read statistics); the test `if tot_mapped_reads` guards log
lines only -- the plan keeps it as an atom and the Lean side proves that it selects nothing.
"""
import ast
import copy
import os

from ..stepplan import emit_plan, _is_logging

NAME = "ExprsCovGlue"
PATH = "cnvlib/coverage.py"
TYP = "CovGlueStep"

DO_ATOMS = [
    ("processes is not None", "procsGiven"),
    ("processes < 1", "procsBelowOne"),
    ("processes <= 0", "procsBelowOne"),
    ("samutil.ensure_bam_sorted(bam_fname, fasta=fasta)", "bamSorted"),
]
IV_ATOMS = [
    ("BED_BLANK", "bedBlank"),
    ("by_count", "byCount"),
    ("tot_mapped_reads", "mappedReadsKnown"),
]
STEPS = [
    # do_coverage
    ("processes = None", "procsToAllCpus"),
    ("raise RuntimeError", "raiseRuntimeError"),
    ("samutil.ensure_bam_index(bam_fname)", "ensureIndex"),
    ("cnarr = interval_coverages(bed_fname, bam_fname, by_count, min_mapq, processes, fasta)", "callIntervalCoverages"),
    ("return cnarr", "returnTable"),
    # interval_coverages
    ("meta = {'sample_id': core.fbase(bam_fname)}", "setMeta"),
    ("start_time = time.time()", None),
    ("return CNA.from_rows([], meta_dict=meta)", "returnEmptyTable"),
    ("results = interval_coverages_count(bed_fname, bam_fname, min_mapq, processes, fasta)", "runCount"),
    ("read_counts, cna_rows = zip(*results)", "unzipResults"),
    ("read_counts = pd.Series(read_counts)", None),
    ("cnarr = CNA.from_rows(list(cna_rows), columns=CNA._required_columns + ('depth',), meta_dict=meta)", "tableFromRows"),
    ("table = interval_coverages_pileup(bed_fname, bam_fname, min_mapq, processes, fasta)", "runPileup"),
    ("read_len = samutil.get_read_length(bam_fname, fasta=fasta)", None),
    ("read_counts = table['basecount'] / read_len", None),
    ("table = table.drop('basecount', axis=1)", "dropBasecount"),
    ("table = table.drop(columns='basecount')", "dropBasecount"),
    ("cnarr = CNA(table, meta)", "tableFromFrame"),
    ("tot_time = time.time() - start_time", None),
    ("tot_reads = read_counts.sum()", None),
    ("tot_mapped_reads = samutil.bam_total_reads(bam_fname, fasta=fasta)", None),
]

EMPTY_BED_BLOCKS = [
    "with open(bed_fname) as bed_handle:\n    for line in bed_handle:\n        if line.strip():\n            break\n"
    "    else:\n        return CNA.from_rows([], meta_dict=meta)",
]


class _NoLog(ast.NodeTransformer):
    def generic_visit(self, node):
        super().generic_visit(node)
        for f in ("body", "orelse"):
            v = getattr(node, f, None)
            if isinstance(v, list):
                setattr(node, f, [s for s in v if not _is_logging(s)])
        return node


def _read_with(stmts):
    """replace the empty-regions-file block by the `if` it stands for (module docstring)"""
    out = []
    for s in stmts:
        if isinstance(s, ast.With):
            text = ast.unparse(_NoLog().visit(copy.deepcopy(s)))
            if text in EMPTY_BED_BLOCKS:
                ret = ast.parse("def f():\n    return CNA.from_rows([], meta_dict=meta)").body[0].body[0]
                s = ast.If(test=ast.Name(id="BED_BLANK", ctx=ast.Load()), body=[ret], orelse=[])
        out.append(s)
    return out


def extract(repo, o):
    from ..translate import parse, find_func
    tree, _src = parse(os.path.join(repo, PATH))
    ctors = []
    for _t, c in STEPS:
        if c and c not in ctors:
            ctors.append(c)
    o.lines.append("/-- the effects of `do_coverage` / `interval_coverages`, one constructor per statement -/")
    o.lines.append(f"inductive {TYP} | " + " | ".join(ctors) + "\n  deriving DecidableEq, Repr")
    fn = find_func(tree, "do_coverage")
    emit_plan(o, fn, "src_do_coverage_plan", DO_ATOMS, STEPS, TYP,
              comment="coverage.do_coverage: the steps that run, in order, as a function of its tests",
              where=PATH + ":do_coverage")
    fn = find_func(tree, "interval_coverages")
    emit_plan(o, fn, "src_interval_coverages_plan", IV_ATOMS, STEPS, TYP,
              comment="coverage.interval_coverages: the steps that run, in order, as a function of its tests "
                      "(bedBlank: every line of the regions file is blank)",
              where=PATH + ":interval_coverages", body=_read_with(fn.body))
    # the defaults of do_coverage's options
    try:
        fn = find_func(tree, "do_coverage")
        names = [a.arg for a in fn.args.args]
        defs = dict(zip(names[len(names) - len(fn.args.defaults):], fn.args.defaults))
        bc, mq, pr = defs["by_count"], defs["min_mapq"], defs["processes"]
        if not (isinstance(bc, ast.Constant) and isinstance(bc.value, bool) and isinstance(mq, ast.Constant)
                and type(mq.value) is int and isinstance(pr, ast.Constant) and type(pr.value) is int):
            raise ValueError("defaults are not plain literals")
        o.lines.append("/-- coverage.do_coverage: the positional order of its parameters -/\n"
                       "def src_do_coverage_params : List String := [" + ", ".join('"' + n + '"' for n in names) + "]")
        o.lines.append("/-- coverage.do_coverage: defaults of by_count / min_mapq / processes -/\n"
                       f"def src_do_coverage_default_by_count : Bool := {'true' if bc.value else 'false'}\n"
                       f"def src_do_coverage_default_min_mapq : Int := {mq.value}\n"
                       f"def src_do_coverage_default_processes : Int := {pr.value}")
        o.info["src_do_coverage_defaults"] = {"ok": True}
    except (KeyError, ValueError, AttributeError) as e:
        o.lines.append(f"-- NOT TRANSLATED: {PATH}:do_coverage defaults: {str(e)[:160]}".replace("\n", " "))
        o.info["src_do_coverage_defaults"] = {"error": str(e)[:160]}
