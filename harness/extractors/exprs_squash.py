"""cnvlib/segfilters.py: squash_region -> Generated/ExprsSquash.lean (reading rules: harness/squashtrans.py).

The whole body of `squash_region` is re-read on every run: which reduction of which column fills which cell of the
merged row, and under which condition (`"k" in cnarr`) the cell exists.  Props/C14SrcSquash.lean proves the model
`C14Sq.squashCols` equal to it, so exchanging a reduction (`max` -> `min`, `np.average` -> `np.mean`), a column, an
index (`iat[-1]` -> `iat[0]`), a guard or dropping `drop_duplicates()` breaks a proof obligation."""
import os
from ..exprtrans import Untranslatable
from ..translate import parse, find_func
from ..squashtrans import emit_squash

NAME = "ExprsSquash"
IMPORTS = ["CnvVerif.Model.SegFilterExt5Vocab"]


def extract(repo, o):
    lean = "src_squash_region"
    try:
        tree, _src = parse(os.path.join(repo, "cnvlib/segfilters.py"))
        emit_squash(o, lean, find_func(tree, "squash_region"), "segfilters.squash_region: the cells of the merged row")
    except (Untranslatable, KeyError, StopIteration, OSError, SyntaxError) as e:
        o.lines.append(f"-- NOT TRANSLATED: cnvlib/segfilters.py:squash_region: {type(e).__name__}: {str(e)[:200]}".replace("\n", " "))
        o.info[lean] = {"error": str(e)[:200]}
