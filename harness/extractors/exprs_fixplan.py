"""Source decisions -> Generated/ExprsFixPlan.lean (reading rules at the top of harness/fixplan.py):
the pooled-or-flat test of `fix.apply_weights` (`.any()` reductions over the reference's spread / log2 columns), the
"most bins have no coverage" test of `fix.load_adjust_coverages` and the ordered plan of its `center_by_window` calls
(which correction runs under which flag / column, with which sort key).
Props/C04SrcPlan.lean proves the model's `pooledRef`, skip test and correction plan equal to them."""
from ..fixplan import emit

NAME = "ExprsFixPlan"
IMPORTS = ["CnvVerif.Generated.Consts"]


def extract(repo, o):
    emit(repo, o)
