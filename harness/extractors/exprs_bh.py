"""Source body of cnvlib/bintest.py: p_adjust_bh -> Generated/ExprsBh.lean (typed numpy reading: harness/vectrans.py with
the additions of harness/vectrans_bh.py).  Props/C17SrcBh.lean proves that the model's `padjustBH` equals this generated
definition for every vector, so an edit to the function in /repo changes the generated term and breaks that obligation."""
from ..vectrans_bh import emit

NAME = "ExprsBh"
IMPORTS = ["CnvVerif.Model.NpVecBh"]
SPECS = [
    ("cnvlib/bintest.py", "p_adjust_bh", "src_p_adjust_bh", {"types": {"p": "vec"}},
     "bintest.p_adjust_bh; `by_descend` = the permutation `p.argsort()` returned, reversed"),
]


def extract(repo, o):
    emit(repo, o, SPECS)
