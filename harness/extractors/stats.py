"""cnvlib/descriptives.py, segmetrics.py, bintest.py constants -> Generated/StatsConsts.lean

Everything numeric the C17 model needs that is written as a literal in the source: the MAD -> sd
scale factor, the biweight tuning constants, the IQR percentiles, the bootstrap seed, the default
alpha / bootstraps, the `2.0 *` of the two-sided tail and the range-query mode of do_segmetrics.
"""
import ast
import os
from ..translate import seg, parse, find_func, func_defaults

NAME = "StatsConsts"
# constants of cnvlib/descriptives.py that harness/extractors/descriptives.py (C19) already generates with the
# same names and values: reuse those definitions instead of redefining them in the shared namespace
IMPORTS = ["CnvVerif.Generated.DescConsts"]
SKIP_NAMES = {"BILOC_C", "BILOC_C_dec", "BILOC_MAX_ITER", "BIVAR_C", "BIVAR_C_dec", "MAD_SCALE", "MAD_SCALE_dec"}


def _num_default(fn, src, name):
    args = fn.args.args
    d = fn.args.defaults
    for a, v in zip(args[len(args) - len(d):], d):
        if a.arg == name:
            return ast.literal_eval(v), seg(src, v)
    raise KeyError(name)


def _mult_consts(fn, src, ints=False):
    """float literals used as a multiplier inside the function (`x * 1.4826`, `x *= 1.4826`); with `ints`, integer
    literals too (`cdf(..) * 2` says the same as `2.0 * cdf(..)`)"""
    kinds = (float, int) if ints else (float,)
    out = []
    for n in ast.walk(fn):
        if isinstance(n, ast.AugAssign) and isinstance(n.op, ast.Mult) and isinstance(n.value, ast.Constant):
            out.append((n.value.value, seg(src, n.value)))
        if isinstance(n, ast.BinOp) and isinstance(n.op, ast.Mult):
            for side in (n.left, n.right):
                if isinstance(side, ast.Constant) and isinstance(side.value, kinds) and not isinstance(side.value, bool):
                    out.append((side.value, seg(src, side)))
    return out


def extract(repo, o):
    tree, src = parse(os.path.join(repo, "cnvlib/descriptives.py"))
    mad = find_func(tree, "median_absolute_deviation")
    ms = _mult_consts(mad, src)
    if len(ms) != 1:
        raise ValueError("median_absolute_deviation: expected exactly one scale factor")
    o.flt("MAD_SCALE", ms[0][0], ms[0][1], "median_absolute_deviation: MAD -> sd scale")
    bv = find_func(tree, "biweight_midvariance")
    ms = _mult_consts(bv, src)
    if len(ms) != 1:
        raise ValueError("biweight_midvariance: expected exactly one float multiplier")
    o.flt("BIVAR_MAD_SCALE", ms[0][0], ms[0][1], "biweight_midvariance fallback: mad * 1.4826")
    for nm in ("c", "epsilon"):
        v, t = _num_default(bv, src, nm)
        o.flt("BIVAR_" + nm.upper(), v, t, f"biweight_midvariance default {nm}")
    bl = find_func(tree, "biweight_location")
    for nm in ("c", "epsilon"):
        v, t = _num_default(bl, src, nm)
        o.flt("BILOC_" + nm.upper(), v, t, f"biweight_location default {nm}")
    # inner pass of biweight_location: is the outlier mask taken on |u| < 1 BEFORE the weights are formed
    # (repaired code, fix O) or on the transformed weights `w < 1` (as originally coded)?
    it = find_func(tree, "biloc_iter")
    steps = [(n.targets[0].id, ast.unparse(n.value)) for n in it.body
             if isinstance(n, ast.Assign) and isinstance(n.targets[0], ast.Name) and n.targets[0].id in ("w", "mask")]
    names = [k for k, _ in steps]
    if names == ["w", "mask", "w"] and "abs(w) < 1" in steps[1][1]:
        mask_abs = True
    elif names == ["w", "w", "mask"] and steps[2][1].replace(" ", "") == "w<1":
        mask_abs = False
    else:
        raise ValueError(f"biloc_iter: unknown mask/weight sequence {steps}")
    o.defn("BILOC_MASK_ON_ABS_U", "Bool", "true" if mask_abs else "false",
           "biweight_location: outlier mask is `abs(u) < 1` taken before w = (1-u^2)^2 (true) or `w < 1` after it (false)")
    o.defn("BILOC_MAX_ITER", "Nat", str(int(func_defaults(bl)["max_iter"])), "biweight_location default max_iter")
    iqr = find_func(tree, "interquartile_range")
    pcts = [ast.literal_eval(c.args[1]) for c in ast.walk(iqr)
            if isinstance(c, ast.Call) and getattr(c.func, "attr", "") == "percentile"]
    o.defn("IQR_PERCENTILES", "List Rat", "[" + ", ".join(f"({int(p)} : Rat)" for p in pcts) + "]",
           "interquartile_range: percentile(a, hi) - percentile(a, lo), in source order")

    tree, src = parse(os.path.join(repo, "cnvlib/segmetrics.py"))
    ci = find_func(tree, "confidence_interval_bootstrap")
    seeds = [ast.literal_eval(c.args[0]) for c in ast.walk(ci)
             if isinstance(c, ast.Call) and getattr(c.func, "attr", "") == "seed"]
    o.defn("BOOTSTRAP_SEEDS", "List Nat", "[" + ", ".join(str(int(s)) for s in seeds) + "]",
           "every np.random.seed(...) literal in confidence_interval_bootstrap, in order")
    ds = find_func(tree, "do_segmetrics")
    v, t = _num_default(ds, src, "alpha")
    o.flt("SEGMETRICS_ALPHA", v, t, "do_segmetrics default alpha")
    o.defn("SEGMETRICS_BOOTSTRAPS", "Nat", str(int(func_defaults(ds)["bootstraps"])), "do_segmetrics default bootstraps")
    modes = [ast.literal_eval(c.args[2]) for c in ast.walk(ds)
             if isinstance(c, ast.Call) and getattr(c.func, "attr", "") == "iter_ranges_of" and len(c.args) >= 3]
    o.defn("SEGMETRICS_RANGE_MODES", "List String", "[" + ", ".join('"%s"' % m for m in modes) + "]",
           "mode argument of every iter_ranges_of call in do_segmetrics")

    tree, src = parse(os.path.join(repo, "cnvlib/bintest.py"))
    db = find_func(tree, "do_bintest")
    v, t = _num_default(db, src, "alpha")
    o.flt("BINTEST_ALPHA", v, t, "do_bintest default alpha")
    zp = find_func(tree, "z_prob")
    ms = _mult_consts(zp, src, ints=True)
    o.defn("ZPROB_TAIL_FACTORS", "List Rat", "[" + ", ".join(f"({int(m[0])} : Rat)" for m in ms) + "]",
           "float multipliers in z_prob (two-sided tail: 2.0 * cdf(-|z|))")
