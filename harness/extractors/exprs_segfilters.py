"""Source expressions of cnvlib/segfilters.py -> Generated/ExprsSegFilters.lean (reading rules: harness/exprtrans.py).

For each filter F the LEVEL FUNCTION is read off F's body: the statements before the one that calls
`squash_by_groups(table, LEVELS)`, followed by `return LEVELS` (second positional argument or `levels=`), read
elementwise -- one row's level as a function of that row's columns (parameters named after the columns, in
alphabetical order, then the filter's own keyword parameters).  For `ampdel` the mask of the final row selection
`return tbl[MASK]` is read as an indicator (1 where the row is kept).  Props/C14Src.lean proves the model's level
functions equal to these, so an edit to a comparison, a constant, a sign or the order of the masked assignments
breaks a proof obligation."""
import ast
import copy
import os
from ..exprtrans import Fn, Untranslatable
from ..translate import parse, find_func

NAME = "ExprsSegFilters"
FILTERS = ("ampdel", "ci", "cn", "sem")


def _squash_call(fn):
    for i, st in enumerate(fn.body):
        for n in ast.walk(st):
            if isinstance(n, ast.Call) and ast.unparse(n.func).split(".")[-1] == "squash_by_groups":
                lv = n.args[1] if len(n.args) > 1 else next(k.value for k in n.keywords if k.arg == "levels")
                return i, lv
    raise Untranslatable("no squash_by_groups call")


def _emit(o, lean, comment, fn, body):
    f2 = copy.deepcopy(fn)
    f2.body = body
    t = Fn(f2, bare_columns=True)
    text = t.block(list(f2.body), {})
    if "MASK:" in text:
        raise Untranslatable("a mask escaped into an arithmetic position")
    sig = [a.arg for a in fn.args.args]
    cols = sorted(p for p in t.params if p not in sig)
    ordered = cols + [p for p in sig if p in t.params]
    head = f"def {lean} ({' '.join(ordered)} : Rat) : Rat :=\n  {text}" if ordered else f"def {lean} : Rat :=\n  {text}"
    o.lines.append(f"/-- {comment} -/\n" + head)
    o.info[lean] = {"params": ordered}


def extract(repo, o):
    tree, _src = parse(os.path.join(repo, "cnvlib/segfilters.py"))
    for name in FILTERS:
        lean = "src_level_" + name
        try:
            fn = find_func(tree, name)
            i, lv = _squash_call(fn)
            _emit(o, lean, f"segfilters.{name}: the level of one row", fn,
                  list(fn.body[:i]) + [ast.Return(value=lv)])
            if name == "ampdel":
                ret = [s for s in fn.body[i:] if isinstance(s, ast.Return)]
                if len(ret) != 1 or not isinstance(ret[0].value, ast.Subscript):
                    raise Untranslatable("ampdel: final row selection not of the form tbl[mask]")
                keep = ast.Return(value=ast.Call(func=ast.Attribute(value=ast.Name(id="np", ctx=ast.Load()), attr="where", ctx=ast.Load()),
                                                 args=[ret[0].value.slice, ast.Constant(1), ast.Constant(0)], keywords=[]))
                lean = "src_ampdel_keep"
                _emit(o, lean, "segfilters.ampdel: 1 where a squashed row is kept by the final selection", fn, [keep])
        except (Untranslatable, KeyError, StopIteration, OSError, SyntaxError) as e:
            o.lines.append(f"-- NOT TRANSLATED: cnvlib/segfilters.py:{name}: {type(e).__name__}: {str(e)[:200]}".replace("\n", " "))
            o.info[lean] = {"error": str(e)[:200]}
