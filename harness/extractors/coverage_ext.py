"""cnvlib/coverage.py: HOW the two parallel sections hand their results back -> Generated/CoverageExt.lean

`interval_coverages_count` (one task per chromosome) and `interval_coverages_pileup` (one task per BED chunk) fan
work out to a process pool and consume the results in a loop.  C09 says the table is the same for any number of
workers; in the small-step pool model (lean/CnvVerif/Model/CoverageSched.lean) that is a theorem exactly when the
results are gathered BY SUBMISSION INDEX, and false when they are taken in completion order.  This extractor names
the discipline each section uses, by the shape of the code:

  "ordered"       `for r in pool.map(f, it)` / `list(pool.map(f, it))`, or futures made by `pool.submit` kept in a
                  list / list comprehension that is then iterated itself (`for fut in futs: fut.result()`,
                  `[fut.result() for fut in futs]`)
  "as_completed"  any use of `as_completed`, `imap_unordered`, `wait(` or `add_done_callback` inside the function
  anything else   raises (= broken tie)

It also reads whether a section without a pool exists (`if procs == 1:` first) -- the serial path of the model.
"""
import ast
import os

from ..translate import parse, find_func, lstr

NAME = "CoverageExt"

_UNORDERED = {"as_completed", "imap_unordered", "wait", "add_done_callback"}


def _pool_names(fn):
    names = set()
    for n in ast.walk(fn):
        if isinstance(n, ast.With):
            for it in n.items:
                if isinstance(it.optional_vars, ast.Name) and "Pool" in ast.unparse(it.context_expr):
                    names.add(it.optional_vars.id)
        if isinstance(n, ast.Assign) and len(n.targets) == 1 and isinstance(n.targets[0], ast.Name) \
                and "Pool" in ast.unparse(n.value):
            names.add(n.targets[0].id)
    return names


def _mode(fn):
    pools = _pool_names(fn)
    if not pools:
        raise ValueError(f"{fn.name}: no process pool found")
    for n in ast.walk(fn):
        if isinstance(n, ast.Name) and n.id in _UNORDERED:
            return "as_completed"
        if isinstance(n, ast.Attribute) and n.attr in _UNORDERED:
            return "as_completed"

    def pool_call(e, attr):
        return (isinstance(e, ast.Call) and isinstance(e.func, ast.Attribute) and e.func.attr == attr
                and isinstance(e.func.value, ast.Name) and e.func.value.id in pools)

    def is_map(e):
        if pool_call(e, "map"):
            return True
        return isinstance(e, ast.Call) and isinstance(e.func, ast.Name) and e.func.id in ("list", "tuple") \
            and len(e.args) == 1 and pool_call(e.args[0], "map")
    loops = [n.iter for n in ast.walk(fn) if isinstance(n, (ast.For, ast.comprehension))]
    if any(is_map(it) for it in loops) or any(
            isinstance(n, ast.Assign) and is_map(n.value) for n in ast.walk(fn)):
        if any(pool_call(n, "submit") for n in ast.walk(fn)):
            raise ValueError(f"{fn.name}: both pool.map and pool.submit")
        return "ordered"
    # futures kept in a list, the list itself iterated
    fut_lists = set()
    for n in ast.walk(fn):
        if isinstance(n, ast.Assign) and len(n.targets) == 1 and isinstance(n.targets[0], ast.Name):
            v = n.value
            if isinstance(v, ast.ListComp) and pool_call(v.elt, "submit"):
                fut_lists.add(n.targets[0].id)
        if isinstance(n, ast.Call) and isinstance(n.func, ast.Attribute) and n.func.attr == "append" \
                and isinstance(n.func.value, ast.Name) and n.args and pool_call(n.args[0], "submit"):
            fut_lists.add(n.func.value.id)
    if fut_lists:
        for it in loops:
            if isinstance(it, ast.Name) and it.id in fut_lists:
                return "ordered"
    raise ValueError(f"{fn.name}: the way results come back from the pool was not recognised")


def _serial_first(fn):
    """the first `if` of the function tests `procs == 1` and its body creates no pool"""
    for st in fn.body:
        if isinstance(st, ast.If):
            t = st.test
            ok = (isinstance(t, ast.Compare) and len(t.ops) == 1 and isinstance(t.ops[0], ast.Eq)
                  and isinstance(t.left, ast.Name) and isinstance(t.comparators[0], ast.Constant)
                  and t.comparators[0].value == 1)
            body_has_pool = any("Pool" in ast.unparse(n) for b in st.body for n in ast.walk(b)
                                if isinstance(n, ast.Call))
            return bool(ok and not body_has_pool and st.orelse)
    return False


def extract(repo, o):
    tree, _src = parse(os.path.join(repo, "cnvlib/coverage.py"))
    modes, serial = [], []
    for fname in ("interval_coverages_count", "interval_coverages_pileup"):
        fn = find_func(tree, fname)
        modes.append(_mode(fn))
        serial.append(_serial_first(fn))
    o.defn("COVERAGE_GATHER_MODES", "List String", "[" + ", ".join(lstr(m) for m in modes) + "]",
           "how interval_coverages_count / interval_coverages_pileup take results back from the pool: "
           "`ordered` = by submission index (Executor.map, or the futures list iterated itself), "
           "`as_completed` = in completion order")
    o.defn("COVERAGE_SERIAL_PATH", "List Bool", "[" + ", ".join("true" if s else "false" for s in serial) + "]",
           "each of the two functions starts with `if procs == 1:` and runs that branch without a pool")
