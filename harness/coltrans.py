"""A small function that maps ONE integer to a list of names or raises -> Lean `Int -> Except String (List String)`
(fourth little source reader, next to exprtrans / dectrans / looptrans; used for `detect_bedcov_columns` of
cnvlib/coverage.py, harness/extractors/exprs_covcols.py).

Reading of the source (part of the trusted base)
* a local bound ONCE in the whole function, by a plain assignment (at any depth), is replaced by its defining expression wherever it is read (so a
  renamed local reads the same); after that, every occurrence of the expression whose text is `key_text` (given by the
  extractor: the integer the function decides on) is the Lean parameter `key_name`; any other free name is Untranslatable;
* the body is a chain of `if c: <raise | return>` / `elif` / `else` statements ending in a `return` or `raise`; expression
  statements (doc string, logging) and the once-bound assignments do not contribute; it becomes
  `if c then .. else ..` in source order;
* `raise E(..)` / `raise E` is `.error "E"` (the class name; the message is not part of the result);
  `return e` is `.ok e` with `e` a list expression;
* conditions: comparisons (`< <= > >= == !=`, also chained) of integer expressions, `and` / `or` / `not`;
* integer expressions: the key, the variable of an enclosing comprehension, integer literals, `+ - *`, unary minus;
* list expressions: a list / tuple display of string expressions, `a + b`, `list(e)`, and the comprehension
  `[s for i in range(a, b)]` / `range(b)` (one generator, no condition) = `s` for i = a, a+1, .., b-1 (nothing when b <= a);
* string expressions: literals, `f"..{i}.."` without conversion / format spec, `str(i)`, `a + b`; an integer prints as
  Python's `str` / Lean's `toString` on `Int` (decimal, leading `-`).
Anything else raises `Untranslatable`: the generated definition is replaced by a comment and the theorems about it stop
checking -- never skipped silently.
"""
from __future__ import annotations

import ast
import copy
import json

from .exprtrans import Untranslatable

_CMP = {ast.Lt: "<", ast.LtE: "≤", ast.Gt: ">", ast.GtE: "≥", ast.Eq: "=", ast.NotEq: "≠"}


class _Subst(ast.NodeTransformer):
    def __init__(self, env):
        self.env = env

    def visit_Name(self, node):
        if isinstance(node.ctx, ast.Load) and node.id in self.env:
            return copy.deepcopy(self.env[node.id])
        return node


class _Key(ast.NodeTransformer):
    def __init__(self, text, name):
        self.text, self.name = text, name

    def visit(self, node):
        if isinstance(node, ast.expr) and ast.unparse(node) == self.text:
            return ast.Name(id=self.name, ctx=ast.Load())
        return self.generic_visit(node)


class Cols:
    def __init__(self, fn: ast.FunctionDef, key_text: str, key_name: str):
        self.fn, self.key_text, self.key = fn, key_text, key_name
        counts = {}
        for n in ast.walk(fn):
            if isinstance(n, ast.Name) and isinstance(n.ctx, ast.Store):
                counts[n.id] = counts.get(n.id, 0) + 1
        self.once = {}
        for s in ast.walk(fn):
            if isinstance(s, ast.Assign) and len(s.targets) == 1 and isinstance(s.targets[0], ast.Name) \
                    and counts.get(s.targets[0].id) == 1:
                self.once[s.targets[0].id] = s.value

    def norm(self, e):
        e = copy.deepcopy(e)
        for _ in range(6):
            e = _Subst(self.once).visit(e)
        e = _Key(self.key_text, self.key).visit(ast.fix_missing_locations(e))
        return ast.fix_missing_locations(e)

    # ---- expressions ------------------------------------------------------------------------------------
    def int_(self, e, env):
        if isinstance(e, ast.Name) and (e.id == self.key or e.id in env):
            return env.get(e.id, e.id)
        if isinstance(e, ast.Constant) and isinstance(e.value, int) and not isinstance(e.value, bool):
            return f"({e.value} : Int)"
        if isinstance(e, ast.UnaryOp) and isinstance(e.op, ast.USub):
            return f"(-{self.int_(e.operand, env)})"
        if isinstance(e, ast.BinOp) and isinstance(e.op, (ast.Add, ast.Sub, ast.Mult)):
            op = {ast.Add: "+", ast.Sub: "-", ast.Mult: "*"}[type(e.op)]
            return f"({self.int_(e.left, env)} {op} {self.int_(e.right, env)})"
        raise Untranslatable("integer expression `" + ast.unparse(e) + "`")

    def is_int(self, e, env):
        try:
            self.int_(e, env)
            return True
        except Untranslatable:
            return False

    def str_(self, e, env):
        if isinstance(e, ast.Constant) and isinstance(e.value, str):
            return json.dumps(e.value)
        if isinstance(e, ast.JoinedStr):
            parts = []
            for v in e.values:
                if isinstance(v, ast.Constant) and isinstance(v.value, str):
                    parts.append(json.dumps(v.value))
                elif isinstance(v, ast.FormattedValue) and v.conversion == -1 and v.format_spec is None:
                    parts.append(f"toString {self.int_(v.value, env)}")
                else:
                    raise Untranslatable("f-string part `" + ast.unparse(e) + "`")
            return "(" + " ++ ".join(parts or ['""']) + ")"
        if isinstance(e, ast.Call) and isinstance(e.func, ast.Name) and e.func.id == "str" and len(e.args) == 1 \
                and not e.keywords:
            return f"(toString {self.int_(e.args[0], env)})"
        if isinstance(e, ast.BinOp) and isinstance(e.op, ast.Add):
            return f"({self.str_(e.left, env)} ++ {self.str_(e.right, env)})"
        raise Untranslatable("string expression `" + ast.unparse(e) + "`")

    def list_(self, e, env):
        if isinstance(e, (ast.List, ast.Tuple)):
            return "[" + ", ".join(self.str_(x, env) for x in e.elts) + "]"
        if isinstance(e, ast.BinOp) and isinstance(e.op, ast.Add):
            return f"({self.list_(e.left, env)} ++ {self.list_(e.right, env)})"
        if isinstance(e, ast.Call) and isinstance(e.func, ast.Name) and e.func.id == "list" and len(e.args) == 1 \
                and not e.keywords:
            return self.list_(e.args[0], env)
        if isinstance(e, (ast.ListComp, ast.GeneratorExp)) and len(e.generators) == 1:
            g = e.generators[0]
            if g.ifs or g.is_async or not isinstance(g.target, ast.Name):
                raise Untranslatable("comprehension `" + ast.unparse(e) + "`")
            it = g.iter
            if not (isinstance(it, ast.Call) and isinstance(it.func, ast.Name) and it.func.id == "range"
                    and not it.keywords and len(it.args) in (1, 2)):
                raise Untranslatable("comprehension over `" + ast.unparse(it) + "`")
            lo = "(0 : Int)" if len(it.args) == 1 else self.int_(it.args[0], env)
            hi = self.int_(it.args[-1], env)
            k = "k%d" % len(env)
            env2 = dict(env)
            env2[g.target.id] = f"({lo} + ({k} : Int))"
            return f"((List.range (Int.toNat ({hi} - {lo}))).map (fun ({k} : Nat) => {self.str_(e.elt, env2)}))"
        raise Untranslatable("list expression `" + ast.unparse(e) + "`")

    def cond(self, e):
        if isinstance(e, ast.BoolOp):
            op = " ∧ " if isinstance(e.op, ast.And) else " ∨ "
            return "(" + op.join(self.cond(v) for v in e.values) + ")"
        if isinstance(e, ast.UnaryOp) and isinstance(e.op, ast.Not):
            return f"(¬ {self.cond(e.operand)})"
        if isinstance(e, ast.Compare):
            terms = [e.left] + list(e.comparators)
            out = []
            for a, op, b in zip(terms, e.ops, terms[1:]):
                if type(op) not in _CMP:
                    raise Untranslatable("comparison `" + ast.unparse(e) + "`")
                out.append(f"{self.int_(a, {})} {_CMP[type(op)]} {self.int_(b, {})}")
            return "(" + " ∧ ".join(out) + ")"
        raise Untranslatable("condition `" + ast.unparse(e) + "`")

    # ---- statements -------------------------------------------------------------------------------------
    def after(self, stmts):
        if not stmts:
            raise Untranslatable("the function falls off its end")
        s, rest = stmts[0], stmts[1:]
        if isinstance(s, ast.Expr):
            return self.after(rest)
        if isinstance(s, ast.Assign) and len(s.targets) == 1 and isinstance(s.targets[0], ast.Name) \
                and s.targets[0].id in self.once:
            return self.after(rest)
        if isinstance(s, ast.Raise):
            exc = s.exc.func if isinstance(s.exc, ast.Call) else s.exc
            if not isinstance(exc, ast.Name):
                raise Untranslatable("raise `" + ast.unparse(s) + "`")
            return f'(Except.error "{exc.id}")'
        if isinstance(s, ast.Return) and s.value is not None:
            return f"(Except.ok {self.list_(self.norm(s.value), {})})"
        if isinstance(s, ast.If):
            c = self.cond(self.norm(s.test))
            return f"if {c} then {self.after(list(s.body) + rest)}\n  else {self.after(list(s.orelse) + rest)}"
        raise Untranslatable("statement `" + ast.unparse(s)[:80] + "`")

    def lean(self, name, comment=None):
        body = self.after(list(self.fn.body))
        head = f"/-- {comment} -/\n" if comment else ""
        return head + f"def {name} ({self.key} : Int) : Except String (List String) :=\n  {body}"
