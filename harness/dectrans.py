"""Decision structure of a small Python function -> Lean definition over named atoms (second source translator, next to
exprtrans.py; used for the record-level decisions of skgenome/tabio/vcfio.py).

What is translated is the SHAPE of the decision -- which condition is asked first, how conditions are combined, which value
each branch yields -- not the meaning of the conditions and values themselves: those are ATOMS (conditions) and LEAVES
(values), recognised by their source text through the vocabulary the extractor states, and given their meaning by the Lean
theorem that uses the generated definition (its hypotheses say what each atom is on the model's data).

Reading of the source (part of the trusted base)
* the RESULT is one returned value: `return a, b, c` with `result=k` follows the k-th element, a plain `return e` follows e;
* statements are read in order; an `if / elif / else` that (somewhere inside) assigns the followed variable or returns becomes
  `if c then .. else ..` with the statements after it continued in both arms; other statements (logging, assignments to
  variables that are not followed) do not contribute;
* a local bound ONCE, by a plain assignment at the top level of the function, is replaced by its defining expression wherever
  it occurs in a condition or value (`gts = set(sample["GT"])` makes `len(gts) > 1` read `len(set(sample['GT'])) > 1`), so
  renaming such a local changes nothing;
* a condition is a combination by `and` / `or` / `not` of atoms; an atom / leaf is looked up by `ast.unparse` of its
  expression; a text that is not in the vocabulary is `Untranslatable` (the generated definition is replaced by a comment,
  the theorems about it stop checking) -- never silently skipped;
* a value that is a call `f(x, ..)` of a plain function of the same module, with plain names as arguments, and whose text is
  not itself a leaf of the vocabulary, is replaced by the decision structure of `f` (parameters renamed to the arguments);
* a conditional expression `a if c else b` in value position is read like the statement `if c: a else: b`;
* numeric leaves are allowed when the result type is `Rat` (float literals as exact doubles).
"""
from __future__ import annotations

import ast
import copy
from fractions import Fraction

from .exprtrans import Untranslatable, _rat


class _Subst(ast.NodeTransformer):
    def __init__(self, env):
        self.env = env

    def visit_Name(self, node):
        if isinstance(node.ctx, ast.Load) and node.id in self.env:
            return copy.deepcopy(self.env[node.id])
        return node


class Dec:
    def __init__(self, fn: ast.FunctionDef, atoms: dict, leaves: dict, result=None, numeric=False, callees=None):
        self.fn = fn
        self.atoms = atoms          # source text -> Lean Bool parameter name
        self.leaves = leaves        # source text -> Lean constructor (or term)
        self.result = result        # position in the returned tuple, or None for a plain return
        self.numeric = numeric      # numeric constants allowed as leaves (result type Rat)
        self.callees = callees or {}
        self.used_atoms = []
        # locals bound once at the top level by a plain assignment: read through
        counts = {}
        for n in ast.walk(fn):
            if isinstance(n, ast.Name) and isinstance(n.ctx, ast.Store):
                counts[n.id] = counts.get(n.id, 0) + 1
        self.once = {}
        for s in fn.body:
            if isinstance(s, ast.Assign) and len(s.targets) == 1 and isinstance(s.targets[0], ast.Name) \
                    and counts.get(s.targets[0].id) == 1:
                self.once[s.targets[0].id] = s.value

    # ---------------------------------------------------------------------------------------------
    def text(self, e):
        e = copy.deepcopy(e)
        for _ in range(4):  # definitions may mention earlier locals
            e = _Subst(self.once).visit(e)
        return ast.unparse(ast.fix_missing_locations(e))

    def cond(self, e):
        if isinstance(e, ast.BoolOp):
            op = " && " if isinstance(e.op, ast.And) else " || "
            return "(" + op.join(self.cond(v) for v in e.values) + ")"
        if isinstance(e, ast.UnaryOp) and isinstance(e.op, ast.Not):
            return f"(!{self.cond(e.operand)})"
        t = self.text(e)
        if t not in self.atoms:
            raise Untranslatable(f"condition `{t}` is not in the vocabulary")
        a = self.atoms[t]
        if a not in self.used_atoms:
            self.used_atoms.append(a)
        return a

    def leaf(self, e):
        t = self.text(e)
        if t in self.leaves:
            return self.leaves[t]
        if isinstance(e, ast.IfExp):  # `a if c else b` is the same decision as the statement form
            return f"(if {self.cond(e.test)} then {self.leaf(e.body)} else {self.leaf(e.orelse)})"
        if self.numeric and isinstance(e, ast.Constant) and isinstance(e.value, (int, float)) and not isinstance(e.value, bool):
            return _rat(e.value)
        # a call of a same-module function on plain names: its own decision structure
        e2 = _Subst(self.once).visit(copy.deepcopy(e))
        if isinstance(e2, ast.Call) and isinstance(e2.func, ast.Name) and e2.func.id in self.callees and not e2.keywords \
                and all(isinstance(a, ast.Name) for a in e2.args):
            callee = copy.deepcopy(self.callees[e2.func.id])
            names = [a.arg for a in callee.args.args]
            ren = {n: ast.Name(id=a.id, ctx=ast.Load()) for n, a in zip(names, e2.args)}
            if len(e2.args) != len(names):
                raise Untranslatable("call " + ast.unparse(e2))

            class R(ast.NodeTransformer):
                def visit_Name(self, node):
                    if node.id in ren:
                        return ast.copy_location(ast.Name(id=ren[node.id].id, ctx=node.ctx), node)
                    return node
            callee = R().visit(callee)
            sub = Dec(callee, self.atoms, self.leaves, None, self.numeric, self.callees)
            term = sub.tree()
            for a in sub.used_atoms:
                if a not in self.used_atoms:
                    self.used_atoms.append(a)
            return term
        raise Untranslatable(f"value `{t}` is not in the vocabulary")

    # ---------------------------------------------------------------------------------------------
    def _touches(self, stmts, var):
        for s in stmts:
            for n in ast.walk(s):
                if isinstance(n, ast.Return):
                    return True
                if var and isinstance(n, ast.Name) and isinstance(n.ctx, ast.Store) and n.id == var:
                    return True
        return False

    def after(self, stmts, var, cur):
        """Lean term for the function's result when `stmts` run with the followed variable currently `cur`"""
        if not stmts:
            raise Untranslatable("the function falls off its end without returning")
        s, rest = stmts[0], stmts[1:]
        if isinstance(s, ast.Return):
            v = s.value
            if self.result is not None:
                if not isinstance(v, ast.Tuple) or len(v.elts) <= self.result:
                    raise Untranslatable("return is not a tuple with the followed position")
                v = v.elts[self.result]
            if isinstance(v, ast.Name) and v.id == var:
                if cur is None:
                    raise Untranslatable(f"`{var}` returned before it is assigned")
                return cur
            return self.leaf(v)
        if isinstance(s, ast.Assign) and len(s.targets) == 1 and isinstance(s.targets[0], ast.Name) and s.targets[0].id == var:
            return self.after(rest, var, self.leaf(s.value))
        if isinstance(s, ast.If) and self._touches([s], var):
            c = self.cond(s.test)
            return f"(if {c} then {self.after(list(s.body) + rest, var, cur)} else {self.after(list(s.orelse) + rest, var, cur)})"
        if isinstance(s, (ast.For, ast.While, ast.Try, ast.With)) and self._touches([s], var):
            raise Untranslatable(type(s).__name__ + " around the followed variable")
        return self.after(rest, var, cur)

    def tree(self):
        # the followed variable: the name at the followed position of the LAST return, if it is a local
        var = None
        rets = [s for s in ast.walk(self.fn) if isinstance(s, ast.Return)]
        if not rets:
            raise Untranslatable("no return")
        v = rets[-1].value
        if self.result is not None and isinstance(v, ast.Tuple) and len(v.elts) > self.result:
            v = v.elts[self.result]
        if isinstance(v, ast.Name) and v.id not in self.once:
            var = v.id
        return self.after(list(self.fn.body), var, None)


def emit_decision(o, tree, fname, lean, atoms, leaves, typ, result=None, numeric=False, comment=None, where=""):
    """append `def lean (atoms.. : Bool) : typ := <decision structure of fname>`; atoms = ordered (text, name) pairs"""
    from .translate import find_func
    try:
        fn = find_func(tree, fname)
        callees = {n.name: n for n in tree.body if isinstance(n, ast.FunctionDef) and n.name != fname}
        d = Dec(fn, dict(atoms), dict(leaves), result, numeric, callees)
        body = d.tree()
        names = []
        for _t, a in atoms:
            if a not in names:
                names.append(a)
        unused = [a for a in names if a not in d.used_atoms]
    except (Untranslatable, KeyError, RecursionError) as e:
        o.lines.append(f"-- NOT TRANSLATED: {where}:{fname} -> {lean}: {type(e).__name__}: {str(e)[:200]}".replace("\n", " "))
        o.info[lean] = {"error": str(e)[:200]}
        return
    if comment:
        o.lines.append(f"/-- {comment} -/")
    sig = " ".join(names)
    o.lines.append(f"def {lean} ({sig} : Bool) : {typ} :=\n  {body}" if names else f"def {lean} : {typ} :=\n  {body}")
    o.info[lean] = {"atoms": names, "unused": unused}
