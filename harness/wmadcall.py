"""`weighted_mad(a, weights, scale_to_sd)` -> Lean (round 5b, C19): a function that calls `weighted_median` twice.

Reading of the source (trusted).  Parameters (a, weights, scale_to_sd[=default]).  Body: optional docstring, then
single-name assignments `v = weighted_median(X, weights)`, an optional `if scale_to_sd: v *= <float literal>` and
`return v`.  X is the parameter `a` or `np.abs(a - m)` / `abs(a - m)` with m a name bound before (read element by element:
`a.map (fun x => Desc.absR (x - m))`).  The k-th call of `weighted_median` in source order is read as
`src_weighted_median X weights order_k` (Generated/ExprsDesc.lean -- the body of `weighted_median` as re-read from the source),
where `order_k` is a further parameter of the generated definition: the permutation the `argsort` INSIDE that call returned
(numpy's argsort is not modelled; the driver checks that the permutation the real run produced sorts the exact values).
A float literal is read as the exact value of the double.  Anything else is Untranslatable."""
from __future__ import annotations

import ast
import os
from fractions import Fraction

from .exprtrans import Untranslatable


def translate(fn, lean, comment):
    body = [s for s in fn.body if not (isinstance(s, ast.Expr) and isinstance(s.value, ast.Constant))]
    args = [a.arg for a in fn.args.args]
    if len(args) != 3:
        raise Untranslatable("expected (a, weights, scale_to_sd)")
    a, weights, flag = args
    bound, lines, orders = set(), [], []
    if not body or not isinstance(body[-1], ast.Return) or not isinstance(body[-1].value, ast.Name):
        raise Untranslatable("expected `return <name>` at the end")
    for s in body[:-1]:
        if isinstance(s, ast.Assign) and len(s.targets) == 1 and isinstance(s.targets[0], ast.Name) \
                and isinstance(s.value, ast.Call) and ast.unparse(s.value.func) == "weighted_median" \
                and len(s.value.args) == 2 and not s.value.keywords and ast.unparse(s.value.args[1]) == weights:
            x = s.value.args[0]
            if isinstance(x, ast.Name) and x.id == a:
                xs = a
            elif isinstance(x, ast.Call) and ast.unparse(x.func) in ("np.abs", "abs", "np.absolute", "np.fabs") and len(x.args) == 1 \
                    and isinstance(x.args[0], ast.BinOp) and isinstance(x.args[0].op, ast.Sub) \
                    and ast.unparse(x.args[0].left) == a and isinstance(x.args[0].right, ast.Name) and x.args[0].right.id in bound:
                xs = f"({a}.map (fun x_ => Desc.absR (x_ - {x.args[0].right.id})))"
            else:
                raise Untranslatable("argument of weighted_median outside the subset: " + ast.unparse(x))
            o = "order" if not orders else f"order{len(orders) + 1}"
            orders.append(o)
            if s.targets[0].id in (a, weights, flag):
                raise Untranslatable("assignment to a parameter")
            lines.append(f"  let {s.targets[0].id} : Rat := src_weighted_median {xs} {weights} {o}")
            bound.add(s.targets[0].id)
        elif isinstance(s, ast.If) and not s.orelse and ast.unparse(s.test) == flag and len(s.body) == 1 \
                and isinstance(s.body[0], ast.AugAssign) and isinstance(s.body[0].op, ast.Mult) \
                and isinstance(s.body[0].target, ast.Name) and s.body[0].target.id in bound \
                and isinstance(s.body[0].value, ast.Constant) and isinstance(s.body[0].value.value, (int, float)) \
                and not isinstance(s.body[0].value.value, bool):
            v = s.body[0].target.id
            q = Fraction(s.body[0].value.value)
            lines.append(f"  let {v} : Rat := if {flag} then {v} * (({q.numerator} : Rat) / {q.denominator}) else {v}")
        else:
            raise Untranslatable("statement outside the subset: " + ast.unparse(s)[:80])
    if body[-1].value.id not in bound:
        raise Untranslatable("returned name is not bound")
    ops = " ".join(f"({o} : List Nat)" for o in orders)
    head = (f"/-- {comment} -/\ndef {lean} ({a} : List Rat) ({weights} : List Rat) {ops} ({flag} : Bool) : Rat :=")
    return "\n".join([head] + lines + [f"  {body[-1].value.id}"]), args + orders


def emit(repo, o, specs):
    from .translate import parse, find_func
    for path, fname, lean, comment in specs:
        try:
            tree, _src = parse(os.path.join(repo, path))
            text, params = translate(find_func(tree, fname), lean, comment)
        except (Untranslatable, KeyError, OSError, SyntaxError) as e:
            o.lines.append(f"-- NOT TRANSLATED: {path}:{fname}: {type(e).__name__}: {str(e)[:200]}".replace("\n", " "))
            o.info[lean] = {"error": str(e)[:200]}
            continue
        o.lines.append(text + "\n")
        o.info[lean] = {"params": params}
