"""Python generator loop -> Lean step function (companion of harness/exprtrans.py, same philosophy).

Re-reads, on every run, the BODY of a `for x in xs:` loop of a generator function (a state machine that
`yield`s values and carries a few variables from one iteration to the next) and the statements after the loop,
and writes them as two Lean definitions

    <name>_step  params state elem : List Y × State     -- values yielded while handling one element, new state
    <name>_final params state      : List Y             -- values yielded by the statements after the loop

so that the generator's output on `xs` is `Py.genLoop step final init xs` (`lean/CnvVerif/Model/PyPrims.lean`).
Props prove that the hand-written model (e.g. `stepLine` of Model/Access.lean) EQUALS these definitions.

The accepted subset is deliberately narrow; anything outside it raises `Untranslatable`, and the extractor then
leaves a comment instead of a definition, so that exactly the theorems about that function stop checking.

Reading of the source (trusted, like the rules at the top of exprtrans.py)
* the extractor DECLARES the Lean type of every loop-carried variable, loop element and free parameter; a Python
  `str` / numpy "c" array is a `List Char`, an integer vector a `List Nat`, a mask a `List Bool`; a variable that
  may be `None` is an `Option`; a loop-carried variable that is used in arithmetic without a `None` test is a plain
  number (that it is not `None` there is a PRECONDITION: the `TypeError` Python raises otherwise is modelled
  separately and tied by the correspondence run only);
* `yield e` appends `e` to the step's output; `continue` ends the step with the current state; `if x is (not) None`
  is a `match` on the option; an `if` whose branches only yield is read as a conditional list; every other `if`
  continues with the REST of the body in both branches (continuation style, as in exprtrans);
* assignments are `let`s (a re-assignment shadows); `a, b = x, y` is simultaneous; `x += e` is `x = x + e`;
* `for a, b in zip(u, v): yield f(a, b)` is `(List.zip u v).map (fun p => f p.1 p.2)`;
* a call to a function of the same module whose body, once expression statements (logging) are dropped, is a single
  `return`, is inlined; expression statements that call `logging.*` and `assert` statements are dropped (the models
  state assertions as preconditions);
* library calls are read as the primitives of `Model/PyPrims.lean`, one line each: `s.startswith(p)`,
  `s.split(None, 1)[0]`, `s.rstrip()`, `c in s`, `not s` (empty), `all(v == c for v in s)`, `np.array(s, dtype="c")`
  (the characters), `np.where(a == c)[0]` (also spelled `np.nonzero(a == c)[0]`), `a[0]`, `a[-1]`, `a[:-1]`, `a[1:]`, `np.diff(a)`, `a > k`, `m.any()`,
  `a[m]`, `a + k` (broadcast), `len(a)`, `x or 0`.
"""
from __future__ import annotations

import ast
import copy

from .exprtrans import Untranslatable

_KEYWORDS = {"end", "at", "from", "open", "in", "then", "else", "fun", "let", "have", "show", "do", "with", "match",
             "by", "if", "where", "def", "theorem", "local", "prefix", "infix", "section", "namespace", "instance"}


def lname(n):
    return n + "_" if n in _KEYWORDS else n


def _chars(s):
    out = []
    for c in s:
        if c == "'":
            out.append("'\\''")
        elif c == "\\":
            out.append("'\\\\'")
        elif 32 <= ord(c) < 127:
            out.append(f"'{c}'")
        else:
            raise Untranslatable("non-printable character literal")
    return out


def _is_none(e):
    return isinstance(e, ast.Constant) and e.value is None


class Loop:
    """state / elem / params: ordered lists of (python name, Lean type).  ytype: Lean type of a yielded value."""

    def __init__(self, module, state, elem, params, ytype):
        self.module = module
        self.state = list(state)
        self.elem = list(elem)
        self.params = list(params)
        self.ytype = ytype
        self.helpers = {n.name: n for n in module.body if isinstance(n, ast.FunctionDef)}
        self._fresh = 0

    # ---------------------------------------------------------------------------------------------
    # expressions: returns (lean term, type)

    def const(self, e, want=None):
        v = e.value
        if isinstance(v, bool) or v is None:
            raise Untranslatable(f"constant {v!r} in value position")
        if isinstance(v, int):
            t = want if want in ("Nat", "Int") else "Nat"
            if v < 0:
                if t == "Nat":
                    raise Untranslatable("negative literal where a natural number is expected")
                return f"(({v}) : Int)", "Int"
            return f"({v} : {t})", t
        if isinstance(v, (str, bytes)):
            s = v.decode("ascii") if isinstance(v, bytes) else v
            if want == "Char" and len(s) == 1:
                return _chars(s)[0], "Char"
            return "[" + ", ".join(_chars(s)) + "]", "List Char"
        raise Untranslatable(f"constant {v!r}")

    def inline_call(self, e, env):
        """a same-module helper whose body is one `return` once logging is dropped"""
        h = self.helpers[e.func.id]
        body = [s for s in h.body if not isinstance(s, ast.Expr)]
        if len(body) != 1 or not isinstance(body[0], ast.Return) or body[0].value is None or e.keywords:
            raise Untranslatable("helper " + e.func.id + " is not a single return")
        names = [a.arg for a in h.args.args]
        if len(names) != len(e.args):
            raise Untranslatable("helper arity " + e.func.id)
        inner = dict(env)
        for nm, a in zip(names, e.args):
            inner[nm] = self.expr(a, env)
        return self.expr(body[0].value, inner)

    def expr(self, e, env, want=None):
        if isinstance(e, ast.Constant):
            return self.const(e, want)
        if isinstance(e, ast.Name):
            if e.id not in env:
                raise Untranslatable("unknown name " + e.id)
            t, ty = env[e.id]
            if ty == "None":
                raise Untranslatable(f"`{e.id}` is None here and used as a value")
            return t, ty
        if isinstance(e, ast.Tuple):
            parts = [self.expr(x, env) for x in e.elts]
            return "(" + ", ".join(p[0] for p in parts) + ")", "(" + " × ".join(p[1] for p in parts) + ")"
        if isinstance(e, ast.BinOp) and isinstance(e.op, (ast.Add, ast.Sub)):
            lc, rc = isinstance(e.left, ast.Constant), isinstance(e.right, ast.Constant)
            if lc and not rc:
                b, tb = self.expr(e.right, env)
                a, ta = self.expr(e.left, env, tb)
            else:
                a, ta = self.expr(e.left, env)
                b, tb = self.expr(e.right, env, ta if ta in ("Nat", "Int") else "Nat")
            if isinstance(e.op, ast.Add):
                if ta == "List Nat" and tb == "Nat":
                    return f"(Py.addScalar {a} {b})", "List Nat"
                if ta == tb and ta in ("Nat", "Int"):
                    return f"({a} + {b})", ta
            else:
                if ta == tb == "Int":
                    return f"({a} - {b})", "Int"
            raise Untranslatable(f"arithmetic on {ta} and {tb}: " + ast.unparse(e))
        if isinstance(e, ast.BoolOp) and isinstance(e.op, ast.Or) and len(e.values) == 2 \
                and isinstance(e.values[1], ast.Constant) and isinstance(e.values[1].value, int):
            a, ta = self.expr(e.values[0], env)
            if ta != "Option Int":
                raise Untranslatable("`x or k` on " + ta)
            return f"(Py.orInt {a} ({e.values[1].value} : Int))", "Int"
        if isinstance(e, ast.Subscript):
            return self.subscript(e, env)
        if isinstance(e, ast.Call):
            return self.call(e, env)
        raise Untranslatable("expression " + ast.unparse(e))

    def subscript(self, e, env):
        sl = e.slice
        # np.where(a == c)[0]
        if isinstance(e.value, ast.Call) and ast.unparse(e.value.func) in ("np.where", "numpy.where", "np.nonzero",
                                                                           "numpy.nonzero") \
                and isinstance(sl, ast.Constant) and sl.value == 0 and len(e.value.args) == 1:
            c = e.value.args[0]
            if isinstance(c, ast.Compare) and len(c.ops) == 1 and isinstance(c.ops[0], ast.Eq):
                a, ta = self.expr(c.left, env)
                ch, tc = self.expr(c.comparators[0], env, "Char")
                if ta == "List Char" and tc == "Char":
                    return f"(Py.whereEq {a} {ch})", "List Nat"
            raise Untranslatable("np.where of " + ast.unparse(c))
        # s.split(None, 1)[0]
        if isinstance(e.value, ast.Call) and isinstance(e.value.func, ast.Attribute) and e.value.func.attr == "split" \
                and isinstance(sl, ast.Constant) and sl.value == 0:
            args = e.value.args
            if len(args) == 2 and _is_none(args[0]) and isinstance(args[1], ast.Constant) and args[1].value == 1 \
                    and not e.value.keywords:
                a, ta = self.expr(e.value.func.value, env)
                if ta == "List Char":
                    return f"(Py.firstWord {a})", "List Char"
            raise Untranslatable("split: " + ast.unparse(e))
        a, ta = self.expr(e.value, env)
        if isinstance(sl, ast.Slice):
            if sl.step is not None or not ta.startswith("List "):
                raise Untranslatable("slice " + ast.unparse(e))
            lo = sl.lower.value if isinstance(sl.lower, ast.Constant) else None
            hi = sl.upper
            if sl.lower is not None and lo is None:
                raise Untranslatable("slice " + ast.unparse(e))
            if hi is None and isinstance(lo, int) and lo >= 0:
                return f"({a}.drop {lo})", ta
            if lo is None and isinstance(hi, ast.UnaryOp) and isinstance(hi.op, ast.USub) \
                    and isinstance(hi.operand, ast.Constant) and hi.operand.value == 1:
                return f"({a}.dropLast)", ta
            raise Untranslatable("slice " + ast.unparse(e))
        if isinstance(sl, ast.Name):
            m, tm = self.expr(sl, env)
            if tm == "List Bool" and ta.startswith("List "):
                return f"(Py.select {a} {m})", ta
            raise Untranslatable("index by " + tm)
        if ta == "List Nat":
            if isinstance(sl, ast.Constant) and sl.value == 0:
                return f"(Py.first {a})", "Nat"
            if isinstance(sl, ast.UnaryOp) and isinstance(sl.op, ast.USub) and isinstance(sl.operand, ast.Constant) \
                    and sl.operand.value == 1:
                return f"(Py.last {a})", "Nat"
        raise Untranslatable("subscript " + ast.unparse(e))

    def call(self, e, env):
        f = ast.unparse(e.func)
        if isinstance(e.func, ast.Name) and e.func.id in self.helpers and e.func.id not in env:
            return self.inline_call(e, env)
        if f == "len" and len(e.args) == 1:
            a, ta = self.expr(e.args[0], env)
            if ta.startswith("List "):
                return f"{a}.length", "Nat"
        if f in ("np.array", "numpy.array") and len(e.args) == 1 and len(e.keywords) == 1 \
                and e.keywords[0].arg == "dtype" and isinstance(e.keywords[0].value, ast.Constant) \
                and e.keywords[0].value.value == "c":
            a, ta = self.expr(e.args[0], env)
            if ta == "List Char":
                return a, ta
        if f in ("np.diff", "numpy.diff") and len(e.args) == 1 and not e.keywords:
            a, ta = self.expr(e.args[0], env)
            if ta == "List Nat":
                return f"(Py.diff {a})", "List Int"
        if isinstance(e.func, ast.Attribute) and not e.keywords:
            a, ta = self.expr(e.func.value, env)
            if e.func.attr == "rstrip" and not e.args and ta == "List Char":
                return f"(Py.rstrip {a})", "List Char"
        raise Untranslatable("call " + ast.unparse(e))

    # ---------------------------------------------------------------------------------------------
    # conditions: returns a Lean Prop (decidable)

    def cond(self, e, env):
        if isinstance(e, ast.UnaryOp) and isinstance(e.op, ast.Not):
            if isinstance(e.operand, ast.Name):
                a, ta = self.expr(e.operand, env)
                if ta.startswith("List "):
                    return f"({a}.isEmpty = true)"
            return f"(¬ {self.cond(e.operand, env)})"
        if isinstance(e, ast.BoolOp):
            op = " ∧ " if isinstance(e.op, ast.And) else " ∨ "
            return "(" + op.join(self.cond(v, env) for v in e.values) + ")"
        if isinstance(e, ast.Compare) and len(e.ops) == 1:
            op, r = e.ops[0], e.comparators[0]
            if isinstance(op, ast.In):
                a, ta = self.expr(r, env)
                c, tc = self.expr(e.left, env, "Char")
                if ta == "List Char" and tc == "Char":
                    return f"({a}.contains {c} = true)"
                raise Untranslatable("membership " + ast.unparse(e))
            sym = {ast.Lt: "<", ast.LtE: "≤", ast.Gt: ">", ast.GtE: "≥", ast.Eq: "=", ast.NotEq: "≠"}.get(type(op))
            if sym is None:
                raise Untranslatable("comparison " + ast.unparse(e))
            if isinstance(e.left, ast.Constant) and not isinstance(r, ast.Constant):
                b, tb = self.expr(r, env)
                a, ta = self.expr(e.left, env, tb)
            else:
                a, ta = self.expr(e.left, env)
                b, tb = self.expr(r, env, ta)
            if ta == tb and ta in ("Nat", "Int", "Char"):
                return f"({a} {sym} {b})"
            raise Untranslatable(f"comparison of {ta} and {tb}: " + ast.unparse(e))
        if isinstance(e, ast.Call):
            f = ast.unparse(e.func)
            # all(v == c for v in s)
            if f == "all" and len(e.args) == 1 and isinstance(e.args[0], ast.GeneratorExp):
                g = e.args[0]
                if len(g.generators) == 1 and not g.generators[0].ifs and isinstance(g.generators[0].target, ast.Name):
                    v = g.generators[0].target.id
                    a, ta = self.expr(g.generators[0].iter, env)
                    if ta == "List Char":
                        inner = dict(env)
                        inner[v] = (lname(v), "Char")
                        return f"({a}.all (fun {lname(v)} => decide {self.cond(g.elt, inner)}) = true)"
                raise Untranslatable("all(...) " + ast.unparse(e))
            if isinstance(e.func, ast.Attribute) and not e.keywords:
                a, ta = self.expr(e.func.value, env)
                if e.func.attr == "startswith" and len(e.args) == 1 and ta == "List Char":
                    p, tp = self.expr(e.args[0], env)
                    if tp == "List Char":
                        return f"(Py.startsWith {a} {p} = true)"
                if e.func.attr == "any" and not e.args and ta == "List Bool":
                    return f"(Py.anyTrue {a} = true)"
        raise Untranslatable("condition " + ast.unparse(e))

    # a mask `vector > k` assigned to a name
    def mask(self, e, env):
        if isinstance(e, ast.Compare) and len(e.ops) == 1 and isinstance(e.ops[0], ast.Gt):
            a, ta = self.expr(e.left, env)
            if ta == "List Int":
                b, tb = self.expr(e.comparators[0], env, "Int")
                if tb == "Int":
                    return f"(Py.gtMask {a} {b})", "List Bool"
        return None

    # ---------------------------------------------------------------------------------------------
    # statements

    @staticmethod
    def _none_test(test):
        """(variable, True when the test is `is not None`) or None"""
        if isinstance(test, ast.Compare) and len(test.ops) == 1 and isinstance(test.ops[0], (ast.Is, ast.IsNot)) \
                and _is_none(test.comparators[0]) and isinstance(test.left, ast.Name):
            return test.left.id, isinstance(test.ops[0], ast.IsNot)
        return None

    @staticmethod
    def _is_noise(s):
        if isinstance(s, ast.Assert) or isinstance(s, ast.Pass):
            return True
        if isinstance(s, ast.Expr):
            if isinstance(s.value, ast.Constant):
                return True
            if isinstance(s.value, ast.Call) and ast.unparse(s.value.func).startswith("logging."):
                return True
        return False

    def _yield_only(self, stmts):
        for s in stmts:
            if self._is_noise(s):
                continue
            if isinstance(s, ast.Expr) and isinstance(s.value, ast.Yield):
                continue
            if isinstance(s, ast.For) and self._yield_only(s.body) and not s.orelse:
                continue
            if isinstance(s, ast.If) and self._yield_only(s.body) and self._yield_only(s.orelse):
                continue
            return False
        return True

    def outs_join(self, outs):
        return "[]" if not outs else " ++ ".join(outs)

    def split_none(self, var, env):
        """Lean names / environments of the two arms of a None test on `var`"""
        t, ty = env[var]
        if not ty.startswith("Option "):
            return None
        self._fresh += 1
        v = f"{lname(var)}_v{self._fresh}"
        some_env, none_env = dict(env), dict(env)
        some_env[var] = (v, ty[len("Option "):])
        none_env[var] = ("none", "None")
        return t, v, some_env, none_env

    def yields(self, stmts, env):
        """the list term yielded by a yield-only statement list"""
        outs = []
        for s in stmts:
            if self._is_noise(s):
                continue
            if isinstance(s, ast.Expr) and isinstance(s.value, ast.Yield):
                outs.append("[" + self.expr(s.value.value, env)[0] + "]")
            elif isinstance(s, ast.For):
                outs.append(self.for_zip(s, env))
            elif isinstance(s, ast.If):
                outs.append(self.if_yields(s, env))
            else:
                raise Untranslatable("not a yield: " + ast.unparse(s)[:60])
        return self.outs_join(outs)

    def if_yields(self, s, env):
        nt = self._none_test(s.test)
        if nt is not None:
            var, is_not = nt
            ty = env[var][1]
            if ty == "None" or not ty.startswith("Option "):
                known_some = ty != "None"
                return "(" + self.yields(s.body if known_some == is_not else s.orelse, env) + ")"
            t, v, some_env, none_env = self.split_none(var, env)
            a = self.yields(s.body if is_not else s.orelse, some_env)
            b = self.yields(s.orelse if is_not else s.body, none_env)
            return f"(match {t} with | some {v} => {a} | none => {b})"
        c = self.cond(s.test, env)
        return f"(if {c} then {self.yields(s.body, env)} else {self.yields(s.orelse, env)})"

    def for_zip(self, s, env):
        it = s.iter
        if not (isinstance(it, ast.Call) and ast.unparse(it.func) == "zip" and len(it.args) == 2
                and isinstance(s.target, ast.Tuple) and len(s.target.elts) == 2
                and all(isinstance(x, ast.Name) for x in s.target.elts)):
            raise Untranslatable("inner loop is not `for a, b in zip(u, v)`")
        (u, tu), (v, tv) = self.expr(it.args[0], env), self.expr(it.args[1], env)
        if not (tu.startswith("List ") and tv.startswith("List ")):
            raise Untranslatable("zip of non-vectors")
        inner = dict(env)
        inner[s.target.elts[0].id] = ("p.1", tu[5:])
        inner[s.target.elts[1].id] = ("p.2", tv[5:])
        body = [b for b in s.body if not self._is_noise(b)]
        if len(body) != 1 or not (isinstance(body[0], ast.Expr) and isinstance(body[0].value, ast.Yield)):
            raise Untranslatable("inner loop body is not a single yield")
        val = self.expr(body[0].value.value, inner)[0]
        return f"((List.zip {u} {v}).map (fun (p : {tu[5:]} × {tv[5:]}) => {val}))"

    def leaf(self, env, outs, mode):
        if mode == "final":
            return self.outs_join(outs)
        parts = []
        for name, ty in self.state:
            t, cur = env[name]
            if cur == ty:
                parts.append(t)
            elif cur == "None" and ty.startswith("Option "):
                parts.append("none")
            elif ty == "Option " + cur:
                parts.append(f"some {t}")
            else:
                raise Untranslatable(f"state variable {name} has type {cur}, declared {ty}")
        return f"({self.outs_join(outs)}, ({', '.join(parts)}))"

    def assign(self, name, value, env):
        """returns (let-prefix, new env)"""
        env = dict(env)
        if _is_none(value):
            env[name] = ("none", "None")
            return "", env
        m = self.mask(value, env)
        t, ty = m if m is not None else self.expr(value, env)
        env[name] = (lname(name), ty)
        return f"let {lname(name)} : {ty} := {t}\n", env

    def emit_out(self, term, rest, env, outs, mode):
        """the yielded values are bound where the `yield` stands (later re-assignments must not reach them)"""
        self._fresh += 1
        nm = f"out{self._fresh}"
        return f"let {nm} : List {self.ytype} := {term}\n" + self.block(rest, env, outs + [nm], mode)

    def block(self, stmts, env, outs, mode):
        if not stmts:
            return self.leaf(env, outs, mode)
        s, rest = stmts[0], list(stmts[1:])
        if self._is_noise(s):
            return self.block(rest, env, outs, mode)
        if isinstance(s, ast.Continue):
            if mode != "step":
                raise Untranslatable("continue outside the loop body")
            return self.leaf(env, outs, mode)
        if isinstance(s, ast.Expr) and isinstance(s.value, ast.Yield):
            return self.emit_out("[" + self.expr(s.value.value, env)[0] + "]", rest, env, outs, mode)
        if isinstance(s, ast.Assign) and len(s.targets) == 1:
            t = s.targets[0]
            if isinstance(t, ast.Name):
                pre, env2 = self.assign(t.id, s.value, env)
                return pre + self.block(rest, env2, outs, mode)
            if isinstance(t, ast.Tuple) and isinstance(s.value, ast.Tuple) and len(t.elts) == len(s.value.elts) \
                    and all(isinstance(x, ast.Name) for x in t.elts):
                vals = [self.expr(v, env) for v in s.value.elts]   # simultaneous: all read the old values
                env2, pre = dict(env), ""
                names = [x.id for x in t.elts]
                tmp = [f"{lname(n)}_new" for n in names]
                for n, tm, (v, ty) in zip(names, tmp, vals):
                    pre += f"let {tm} : {ty} := {v}\n"
                for n, tm, (v, ty) in zip(names, tmp, vals):
                    pre += f"let {lname(n)} : {ty} := {tm}\n"
                    env2[n] = (lname(n), ty)
                return pre + self.block(rest, env2, outs, mode)
            raise Untranslatable("assignment " + ast.unparse(s)[:60])
        if isinstance(s, ast.AugAssign) and isinstance(s.target, ast.Name) and isinstance(s.op, (ast.Add, ast.Sub)):
            value = ast.BinOp(left=ast.Name(id=s.target.id, ctx=ast.Load()), op=s.op, right=s.value)
            pre, env2 = self.assign(s.target.id, value, env)
            return pre + self.block(rest, env2, outs, mode)
        if isinstance(s, ast.For) and self._yield_only([s]):
            return self.emit_out(self.for_zip(s, env), rest, env, outs, mode)
        if isinstance(s, ast.If):
            if self._yield_only([s]):
                return self.emit_out(self.if_yields(s, env), rest, env, outs, mode)
            nt = self._none_test(s.test)
            if nt is not None:
                var, is_not = nt
                ty = env[var][1]
                if ty == "None" or not ty.startswith("Option "):
                    known_some = ty != "None"
                    return self.block(list(s.body if known_some == is_not else s.orelse) + rest, env, outs, mode)
                t, v, some_env, none_env = self.split_none(var, env)
                a = self.block(list(s.body if is_not else s.orelse) + rest, some_env, outs, mode)
                b = self.block(list(s.orelse if is_not else s.body) + rest, none_env, outs, mode)
                return f"(match {t} with\n| some {v} =>\n{a}\n| none =>\n{b})"
            c = self.cond(s.test, env)
            a = self.block(list(s.body) + rest, dict(env), outs, mode)
            b = self.block(list(s.orelse) + rest, dict(env), outs, mode)
            return f"(if {c} then\n{a}\nelse\n{b})"
        raise Untranslatable(type(s).__name__ + ": " + ast.unparse(s)[:80])

    # ---------------------------------------------------------------------------------------------

    def env0(self):
        env = {}
        for name, ty in self.params + self.state + self.elem:
            env[name] = (lname(name), ty)
        return env

    def sig(self, groups):
        return " ".join(f"({lname(n)} : {t})" for g in groups for n, t in g)

    def translate(self, lean_name, loop, post, comment):
        stype = "(" + " × ".join(t for _, t in self.state) + ")"
        step = self.block(list(loop.body), self.env0(), [], "step")
        final = self.block(list(post), {k: v for k, v in self.env0().items() if k not in dict(self.elem)}, [], "final")
        ind = lambda s: "\n".join("  " + l for l in s.split("\n"))
        out = []
        out.append(f"/-- {comment}: one iteration of the loop (values yielded, loop-carried variables afterwards) -/")
        out.append(f"def {lean_name}_step {self.sig([self.params, self.state, self.elem])} :\n"
                   f"    List {self.ytype} × {stype} :=\n{ind(step)}")
        out.append(f"/-- {comment}: the statements after the loop -/")
        out.append(f"def {lean_name}_final {self.sig([self.params, self.state])} : List {self.ytype} :=\n{ind(final)}")
        return "\n".join(out)


def find_loop(fn, targets):
    """the `for` statement of `fn` whose target names are `targets`, and the statements that follow it in its block"""
    def names(t):
        if isinstance(t, ast.Name):
            return (t.id,)
        if isinstance(t, ast.Tuple) and all(isinstance(x, ast.Name) for x in t.elts):
            return tuple(x.id for x in t.elts)
        return None

    def walk(stmts):
        for k, s in enumerate(stmts):
            if isinstance(s, ast.For) and names(s.target) == tuple(targets):
                return s, stmts[k + 1:]
            for sub in ("body", "orelse", "finalbody"):
                inner = getattr(s, sub, None)
                if isinstance(inner, list) and inner and isinstance(inner[0], ast.stmt):
                    r = walk(inner)
                    if r:
                        return r
        return None
    r = walk(fn.body)
    if not r:
        raise Untranslatable("no loop over " + ", ".join(targets))
    if r[0].orelse:
        raise Untranslatable("for/else")
    return r


def emit_loop(repo, o, path, fname, lean, targets, state, elem, params, ytype, comment):
    import os
    from .translate import parse, find_func
    try:
        tree, _src = parse(os.path.join(repo, path))
        fn = find_func(tree, fname)
        loop, post = find_loop(fn, targets)
        text = Loop(tree, state, elem, params, ytype).translate(lean, loop, post, comment)
    except (Untranslatable, KeyError, OSError, SyntaxError) as e:
        o.lines.append(f"-- NOT TRANSLATED: {path}:{fname}: {type(e).__name__}: {str(e)[:200]}".replace("\n", " "))
        o.info[lean] = {"error": str(e)[:200]}
        return
    o.lines.append(text)
    o.info[lean + "_step"] = {"state": [n for n, _ in state]}
    o.info[lean + "_final"] = {}


def emit_value(repo, o, path, fname, lean, var, params, rtype, comment):
    """the value a plain (non-loop) assignment `var = <expr>` of `fname` gives to `var` (first such assignment)"""
    import os
    from .translate import parse, find_func
    try:
        tree, _src = parse(os.path.join(repo, path))
        fn = find_func(tree, fname)
        L = Loop(tree, [], [], params, "Unit")
        for s in ast.walk(fn):
            if isinstance(s, ast.Assign) and len(s.targets) == 1 and isinstance(s.targets[0], ast.Name) \
                    and s.targets[0].id == var:
                t, ty = L.expr(s.value, L.env0())
                break
        else:
            raise Untranslatable(f"no assignment to {var}")
        if ty != rtype:
            raise Untranslatable(f"{var} has type {ty}, expected {rtype}")
    except (Untranslatable, KeyError, OSError, SyntaxError) as e:
        o.lines.append(f"-- NOT TRANSLATED: {path}:{fname}: {type(e).__name__}: {str(e)[:200]}".replace("\n", " "))
        o.info[lean] = {"error": str(e)[:200]}
        return
    o.lines.append(f"/-- {comment} -/\ndef {lean} {L.sig([params])} : {rtype} :=\n  {t}")
    o.info[lean] = {}
