"""NOTE (integration, round 4): this file is the reader `harness/exprtrans.py` AS EXTENDED ON THE C07 GROWTH BRANCH (class
`TableFn` / `emit_table`: one table and one query, row masks elementwise, `searchsorted` as counting, truthiness of bounds,
decision cascades).  Its additions were appended at places where other growth branches appended theirs, so instead of a
textual merge the C07 variant is kept as a module of its own and used ONLY by `extractors/exprs_ranges.py`
(Generated/ExprsRanges.lean).  Its reading rules are the ones in its docstring below and are part of the trusted base.

Python function -> Lean definition, for the small pure arithmetic functions of cnvkit.

The accepted subset is deliberately narrow; anything outside it raises `Untranslatable`, which the check treats
as a broken tie (the generated file then fails to build, or the lock differs), never as silence.

Reading of the source
* every parameter and local is a rational number (`Rat`); array parameters are read ELEMENTWISE: the numpy code
  `x[mask] -= f(y[mask])` means "where mask holds, x becomes x - f(y)", so `a[mask]` is read as `a` and a masked
  augmented assignment as a conditional update (the functions translated here contain no reductions over arrays);
* `2 ** name` (the antilog of a log2 value) becomes a fresh parameter `name_pow2` -- the models work in ratio
  space, where the exact value of that double is an input;
* `len(name)` becomes the parameter `name_len`; `name.median()` the parameter `name_median`;
* truthiness of a number (`purity and purity < 1.0`) is `≠ 0`; `x is None` / `is not None` are resolved by the
  `given` argument (which optional parameters are supplied);
* `if cond: raise ...` guards and `assert` statements are dropped (the models state these as preconditions),
  unless the raise is the only way out of an else-branch, in which case the branch yields `default_on_raise`;
* `int(e)` truncates toward zero, `math.ceil`/`np.ceil` and `//` are exact on rationals, `round` is not accepted;
* float literals are the exact doubles.

Second reading (class `TableFn`, C07: the range-query code of skgenome/intersect.py) -- functions over ONE table and
ONE query range, producing Lean terms over `t : Table`, `inner : Bool`, `qs qe : Option Int`, `i : Nat`, `row : Row`:
* the loops over the queries (`for start_val, end_val in zip(starts, ends)`, the vectorised `searchsorted(starts)`)
  are read for ONE query: the bounds arrays `starts` / `ends` and the loop variables bound from them name the
  current query's bound `qs` / `qe : Option Int` (`none` = that array was not given); `X is not None`, `len(X)` of a
  bounds array = "this bound is given" (`X.isSome`); truthiness of a bound (`if start_val:`) = given and non-zero;
  its integer value is `X.getD 0`; `np.zeros(...)` is the value 0, `np.repeat(x, n)` / `x.copy()` / `int(x)` are `x`,
  `[None] * n` is `none`;
* a boolean array over the table rows is read ELEMENTWISE at the row `row` standing at position `i`:
  `np.ones(len(table), dtype=bool)` is `true`, `table.start` / `table.end` (also `.values`, `table["start"]`) compared
  with a number is the comparison of `row.s` / `row.e`, `m[:k] = 0` is `m && k <= i`, `m[k:] = 0` is `m && i < k`,
  `m &= e` / `m & e` is `&&`; `col.searchsorted(v)` is `Basic.ssLeft col v`, with `"right"` `Basic.ssRight col v`
  (counting, see Basic.lean), `len(table)` is `t.length`, `table.end.is_monotonic_increasing` is `Basic.isMonotone`;
* `mode == "inner"` is the Boolean parameter `inner` (`idx_ranges` asserts mode in inner / outer, so `== "outer"` is
  its negation), `mode == "trim"` the parameter `trim`; `series.clip(lower=v)` / `clip(upper=v)` on the start / end
  column of the selected rows is `max row_start v` / `min row_end v`;
* an `if` whose branches assign locals is read as a conditional value per local (`if c then v1 else v2`);
* a function that chooses among named alternatives (`irange_func = _irange_nested`, `summary_func = join_strings`,
  `return default`) is read as the decision tree over its conditions whose leaves are the alternatives' codes.
"""
from __future__ import annotations

import ast
from fractions import Fraction


class Untranslatable(Exception):
    pass


def _rat(x):
    f = Fraction(x)
    if f.denominator == 1:
        return f"({f.numerator} : Rat)" if f.numerator >= 0 else f"(({f.numerator}) : Rat)"
    return f"(({f.numerator} : Rat) / {f.denominator})"


class Fn:
    def __init__(self, fn: ast.FunctionDef, given=(), absent=(), default_on_raise=None, rename=None, callees=None):
        self.callees = callees or {}
        self.fn = fn
        self.given = set(given)      # optional parameters known to be supplied (not None)
        self.absent = set(absent)    # optional parameters known to be None
        self.params = []             # Lean parameters in order of first use
        self.default_on_raise = default_on_raise
        self.rename = rename or {}

    # -- parameters ------------------------------------------------------------------------------
    def param(self, name):
        name = self.rename.get(name, name)
        if name not in self.params:
            self.params.append(name)
        return name

    # -- expressions -----------------------------------------------------------------------------
    def expr(self, e, env):
        if isinstance(e, ast.Constant):
            if isinstance(e.value, bool) or e.value is None:
                raise Untranslatable(f"constant {e.value!r} in arithmetic position")
            if isinstance(e.value, (int, float)):
                return _rat(e.value)
            raise Untranslatable(f"constant {e.value!r}")
        if isinstance(e, ast.Name):
            if e.id in env:
                return env[e.id]
            return self.param(e.id)
        if isinstance(e, ast.Subscript):
            # elementwise reading of `array[mask]`
            if isinstance(e.value, ast.Name) and isinstance(e.slice, ast.Name):
                return self.expr(e.value, env)
            raise Untranslatable("subscript " + ast.unparse(e))
        if isinstance(e, ast.UnaryOp):
            if isinstance(e.op, ast.USub):
                return f"(-{self.expr(e.operand, env)})"
            if isinstance(e.op, ast.UAdd):
                return self.expr(e.operand, env)
            raise Untranslatable(ast.unparse(e))
        if isinstance(e, ast.BinOp):
            if isinstance(e.op, ast.Pow):
                if isinstance(e.left, ast.Constant) and e.left.value == 2 and isinstance(e.right, ast.Name) \
                        and e.right.id not in env:
                    return self.param(e.right.id + "_pow2")
                if isinstance(e.right, ast.Constant) and isinstance(e.right.value, int) and e.right.value >= 0:
                    return f"({self.expr(e.left, env)} ^ {e.right.value})"
                raise Untranslatable("power " + ast.unparse(e))
            a, b = self.expr(e.left, env), self.expr(e.right, env)
            if isinstance(e.op, ast.Add):
                return f"({a} + {b})"
            if isinstance(e.op, ast.Sub):
                return f"({a} - {b})"
            if isinstance(e.op, ast.Mult):
                return f"({a} * {b})"
            if isinstance(e.op, ast.Div):
                return f"({a} / {b})"
            if isinstance(e.op, ast.FloorDiv):
                return f"(((({a}) / ({b})).floor : Int) : Rat)"
            raise Untranslatable(ast.unparse(e))
        if isinstance(e, ast.IfExp):
            return f"(if {self.cond(e.test, env)} then {self.expr(e.body, env)} else {self.expr(e.orelse, env)})"
        if isinstance(e, ast.Call):
            f = ast.unparse(e.func)
            args = e.args
            if f in ("abs", "np.abs", "np.absolute") and len(args) == 1:
                x = self.expr(args[0], env)
                return f"(if {x} < 0 then -{x} else {x})"
            if isinstance(e.func, ast.Attribute) and e.func.attr == "abs" and not args:
                x = self.expr(e.func.value, env)
                return f"(if {x} < 0 then -{x} else {x})"
            if isinstance(e.func, ast.Attribute) and e.func.attr == "median" and not args \
                    and isinstance(e.func.value, ast.Name):
                return self.param(e.func.value.id + "_median")
            if f in ("max", "np.maximum") and len(args) == 2:
                return f"(max {self.expr(args[0], env)} {self.expr(args[1], env)})"
            if f in ("min", "np.minimum") and len(args) == 2:
                return f"(min {self.expr(args[0], env)} {self.expr(args[1], env)})"
            binops = {"np.divide": "/", "np.true_divide": "/", "np.multiply": "*", "np.add": "+", "np.subtract": "-"}
            if f in binops and len(args) == 2 and not e.keywords:
                return f"({self.expr(args[0], env)} {binops[f]} {self.expr(args[1], env)})"
            if f == "np.square" and len(args) == 1:
                return f"({self.expr(args[0], env)} ^ 2)"
            if f == "np.negative" and len(args) == 1:
                return f"(-{self.expr(args[0], env)})"
            if f == "np.where" and len(args) == 3:
                return f"(if {self.cond(args[0], env)} then {self.expr(args[1], env)} else {self.expr(args[2], env)})"
            if f == "len" and len(args) == 1 and isinstance(args[0], ast.Name):
                return self.param(args[0].id + "_len")
            if f in ("math.ceil", "np.ceil") and len(args) == 1:
                return f"((({self.expr(args[0], env)}).ceil : Int) : Rat)"
            if f in ("math.floor", "np.floor") and len(args) == 1:
                return f"((({self.expr(args[0], env)}).floor : Int) : Rat)"
            if f == "int" and len(args) == 1:
                x = self.expr(args[0], env)
                return f"(if {x} < 0 then ((({x}).ceil : Int) : Rat) else ((({x}).floor : Int) : Rat))"
            if f == "float" and len(args) == 1:
                return self.expr(args[0], env)
            if isinstance(e.func, ast.Name) and e.func.id in self.callees and not e.keywords:
                # a call to another plain function of the same module is inlined: its parameters are renamed to
                # the caller's variables when the arguments are plain parameters, bound as locals otherwise
                callee = self.callees[e.func.id]
                names = [a.arg for a in callee.args.args]
                if len(args) > len(names):
                    raise Untranslatable("call " + ast.unparse(e))
                import copy
                body = copy.deepcopy(callee.body)
                ren, inner_env = {}, {}
                for nm, a in zip(names, args):
                    if isinstance(a, ast.Name) and a.id not in env:
                        ren[nm] = a.id
                    else:
                        inner_env[nm] = self.expr(a, env)

                class R(ast.NodeTransformer):
                    def visit_Name(self, node):
                        if node.id in ren:
                            return ast.copy_location(ast.Name(id=ren[node.id], ctx=node.ctx), node)
                        return node
                body = [R().visit(st) for st in body]
                return self.block(body, inner_env)
            raise Untranslatable("call " + ast.unparse(e))
        raise Untranslatable(ast.unparse(e))

    def cond(self, e, env):
        if isinstance(e, ast.BoolOp):
            op = " ∧ " if isinstance(e.op, ast.And) else " ∨ "
            return "(" + op.join(self.cond(v, env) for v in e.values) + ")"
        if isinstance(e, ast.UnaryOp) and isinstance(e.op, ast.Not):
            return f"(¬ {self.cond(e.operand, env)})"
        if isinstance(e, ast.Compare):
            parts = []
            left = e.left
            for op, right in zip(e.ops, e.comparators):
                if isinstance(op, (ast.Is, ast.IsNot)) and isinstance(right, ast.Constant) and right.value is None \
                        and isinstance(left, ast.Name):
                    if left.id in self.given:
                        parts.append("False" if isinstance(op, ast.Is) else "True")
                    elif left.id in self.absent:
                        parts.append("True" if isinstance(op, ast.Is) else "False")
                    else:
                        raise Untranslatable(f"None-test of `{left.id}` not resolved by given/absent")
                else:
                    sym = {ast.Lt: "<", ast.LtE: "≤", ast.Gt: ">", ast.GtE: "≥", ast.Eq: "=", ast.NotEq: "≠"}.get(type(op))
                    if sym is None:
                        raise Untranslatable(ast.unparse(e))
                    parts.append(f"{self.expr(left, env)} {sym} {self.expr(right, env)}")
                left = right
            if len(parts) == 1 and parts[0] in ("True", "False"):
                return parts[0]
            return "(" + " ∧ ".join(parts) + ")"
        if isinstance(e, ast.Name):
            if e.id in env:
                if env[e.id].startswith("MASK:"):
                    return env[e.id][5:]
                if env[e.id] in ("True", "False"):
                    return env[e.id]
            elif e.id in self.absent:
                return "False"
            return f"({self.expr(e, env)} ≠ 0)"   # truthiness of a number
        if isinstance(e, ast.Constant) and isinstance(e.value, bool):
            return "True" if e.value else "False"
        raise Untranslatable("condition " + ast.unparse(e))

    # -- statements ------------------------------------------------------------------------------
    @staticmethod
    def _only_raises(stmts):
        return bool(stmts) and all(isinstance(s, (ast.Raise, ast.Expr)) for s in stmts) and any(
            isinstance(s, ast.Raise) for s in stmts)

    def block(self, stmts, env):
        if not stmts:
            raise Untranslatable("function falls off its end without a return")
        s, rest = stmts[0], stmts[1:]
        if isinstance(s, ast.Expr) and isinstance(s.value, ast.Constant):
            return self.block(rest, env)  # docstring
        if isinstance(s, ast.Assert):
            return self.block(rest, env)
        if isinstance(s, ast.Return):
            return self.expr(s.value, env)
        if isinstance(s, ast.Raise):
            if self.default_on_raise is None:
                raise Untranslatable("raise reached and no default_on_raise")
            return self.default_on_raise
        if isinstance(s, ast.Assign) and len(s.targets) == 1:
            t = s.targets[0]
            if isinstance(t, ast.Name):
                # a mask (comparison) assigned to a name is kept as a condition
                if isinstance(s.value, ast.Compare):
                    env = dict(env)
                    env[t.id] = "MASK:" + self.cond(s.value, env)
                    return self.block(rest, env)
                env = dict(env)
                env[t.id] = self.expr(s.value, env)
                return self.block(rest, env)
            raise Untranslatable("assignment to " + ast.unparse(t))
        if isinstance(s, ast.AugAssign):
            op = {ast.Add: "+", ast.Sub: "-", ast.Mult: "*", ast.Div: "/"}.get(type(s.op))
            if op is None:
                raise Untranslatable(ast.unparse(s))
            t = s.target
            if isinstance(t, ast.Name):
                env = dict(env)
                env[t.id] = f"({self.expr(t, env)} {op} {self.expr(s.value, env)})"
                return self.block(rest, env)
            if isinstance(t, ast.Subscript) and isinstance(t.value, ast.Name) and isinstance(t.slice, ast.Name):
                mask = env.get(t.slice.id, "")
                if not mask.startswith("MASK:"):
                    raise Untranslatable("masked update with a mask that is not a comparison: " + ast.unparse(s))
                env = dict(env)
                cur = self.expr(t.value, env)
                env[t.value.id] = f"(if {mask[5:]} then ({cur} {op} {self.expr(s.value, env)}) else {cur})"
                return self.block(rest, env)
            raise Untranslatable(ast.unparse(s))
        if isinstance(s, ast.If):
            if self._only_raises(s.body) and not s.orelse:
                return self.block(rest, env)  # guard: a precondition of the model
            c = self.cond(s.test, env)
            if c == "True":
                return self.block(list(s.body) + rest, env)
            if c == "False":
                return self.block(list(s.orelse) + rest, env)
            th = self.block(list(s.body) + rest, dict(env))
            el = self.block(list(s.orelse) + rest, dict(env))
            return f"(if {c} then {th} else {el})"
        raise Untranslatable(type(s).__name__ + ": " + ast.unparse(s)[:80])

    def translate(self, lean_name, comment=None):
        # parameters in signature order first (so that the Lean signature is stable), then discovered ones
        body = self.block(list(self.fn.body), {})
        if "MASK:" in body:
            raise Untranslatable("a mask escaped into an arithmetic position")
        sig = [self.rename.get(a.arg, a.arg) for a in self.fn.args.args]
        ordered = [p for p in sig if p in self.params] + [p for p in self.params if p not in sig]
        # `2 ** x` parameters replace x itself when x is not otherwise used
        ps = " ".join(ordered)
        head = f"def {lean_name} ({ps} : Rat) : Rat :=\n  {body}" if ordered else f"def {lean_name} : Rat :=\n  {body}"
        doc = f"/-- {comment} -/\n" if comment else ""
        return doc + head, ordered


def emit(repo, o, specs):
    """translate each (file, function, lean name, Fn kwargs, comment); a function outside the subset leaves a
    comment instead of a definition, so that only the theorems about THAT function stop checking"""
    import os
    from .translate import parse, find_func
    for path, fname, lean, kw, comment in specs:
        try:
            tree, _src = parse(os.path.join(repo, path))
            fn = find_func(tree, fname)
            callees = {n.name: n for n in tree.body if isinstance(n, ast.FunctionDef) and n.name != fname}
            text, params = Fn(fn, callees=callees, **kw).translate(lean, comment)
        except (Untranslatable, KeyError, OSError, SyntaxError) as e:
            o.lines.append(f"-- NOT TRANSLATED: {path}:{fname}: {type(e).__name__}: {str(e)[:200]}".replace("\n", " "))
            o.info[lean] = {"error": str(e)[:200]}
            continue
        o.lines.append(text)
        o.info[lean] = {"params": params}


# ---------------------------------------------------------------------------------------------------------------
# second reading: one table, one query range (see the module docstring)

class TableFn:
    COLS = {"start": "s", "end": "e"}
    CMP = {ast.Lt: "<", ast.LtE: "≤", ast.Gt: ">", ast.GtE: "≥"}
    FLIP = {"<": ">", "≤": "≥", ">": "<", "≥": "≤"}

    def __init__(self, fn, table="table", rows=None):
        self.fn = fn
        self.table = table          # the name of the table parameter
        self.rows = rows            # clip reading: the local that holds the selected rows
        self.yielded = None

    # -- values: (kind, lean) with kind in opt | int | nat | zero | bool | mask | col | rows | slice ------------
    def as_int(self, v):
        k, x = v
        if k == "opt":
            return f"({x}.getD 0)"
        if k in ("int", "zero"):
            return x
        raise Untranslatable(f"an integer was expected, got {k} `{x}`")

    def as_nat(self, v):
        k, x = v
        if k in ("nat", "zero"):
            return x
        raise Untranslatable(f"an index was expected, got {k} `{x}`")

    def col(self, e, env):
        """`table.start`, `table.end`, `.values` / `.to_numpy()` of them, `table["start"]` -> s | e"""
        if isinstance(e, ast.Attribute) and e.attr == "values":
            return self.col(e.value, env)
        if isinstance(e, ast.Call) and isinstance(e.func, ast.Attribute) and e.func.attr == "to_numpy" and not e.args:
            return self.col(e.func.value, env)
        base = name = None
        if isinstance(e, ast.Attribute) and isinstance(e.value, ast.Name):
            base, name = e.value.id, e.attr
        elif isinstance(e, ast.Subscript) and isinstance(e.value, ast.Name) and isinstance(e.slice, ast.Constant):
            base, name = e.value.id, e.slice.value
        if name in self.COLS:
            if base == self.table:
                return ("col", self.COLS[name])
            if env.get(base, ("", ""))[0] == "rows":
                return ("int", env["@" + self.COLS[name]][1])
        return None

    def expr(self, e, env):
        c = self.col(e, env)
        if c:
            return c
        if isinstance(e, ast.Constant):
            if e.value is None:
                return ("opt", "none")
            if isinstance(e.value, bool):
                return ("bool", "true" if e.value else "false")
            if isinstance(e.value, int):
                return ("zero", "0") if e.value == 0 else ("int", str(e.value))
            raise Untranslatable(f"constant {e.value!r}")
        if isinstance(e, ast.Name):
            if e.id in env:
                return env[e.id]
            raise Untranslatable(f"unbound name {e.id}")
        if isinstance(e, ast.Attribute) and e.attr == "is_monotonic_increasing":
            c = self.col(e.value, env)
            if c and c[0] == "col":
                return ("bool", f"isMonotone (t.map (·.{c[1]}))")
        if isinstance(e, ast.BinOp) and isinstance(e.op, ast.BitAnd):
            a, b = self.expr(e.left, env), self.expr(e.right, env)
            if a[0] == b[0] == "mask":
                return ("mask", f"({a[1]} && {b[1]})")
        if isinstance(e, ast.BinOp) and isinstance(e.op, ast.Mult) and isinstance(e.left, ast.List) \
                and len(e.left.elts) == 1 and isinstance(e.left.elts[0], ast.Constant) and e.left.elts[0].value is None:
            return ("opt", "none")
        if isinstance(e, ast.Compare) and len(e.ops) == 1 and type(e.ops[0]) in self.CMP:
            a, b = self.expr(e.left, env), self.expr(e.comparators[0], env)
            op = self.CMP[type(e.ops[0])]
            if a[0] == "col" and b[0] != "col":
                return ("mask", f"decide (row.{a[1]} {op} {self.as_int(b)})")
            if b[0] == "col" and a[0] != "col":
                return ("mask", f"decide (row.{b[1]} {self.FLIP[op]} {self.as_int(a)})")
        if isinstance(e, ast.Call):
            f = ast.unparse(e.func)
            if f == "len" and len(e.args) == 1 and isinstance(e.args[0], ast.Name) and e.args[0].id == self.table:
                return ("nat", "t.length")
            if f in ("int", "np.int_", "np.int64") and len(e.args) == 1:
                return self.expr(e.args[0], env)
            if f == "np.ones" and any(k.arg == "dtype" and ast.unparse(k.value) in ("np.bool_", "bool", "np.bool")
                                      for k in e.keywords):
                return ("mask", "true")
            if f == "np.zeros":
                return ("zero", "0")
            if f == "np.repeat" and len(e.args) == 2:
                return self.expr(e.args[0], env)
            if f == "slice" and len(e.args) == 2:
                return ("slice", (self.as_nat(self.expr(e.args[0], env)), self.as_nat(self.expr(e.args[1], env))))
            if isinstance(e.func, ast.Attribute):
                m, recv = e.func.attr, e.func.value
                if m == "copy" and not e.args:
                    return self.expr(recv, env)
                if m == "searchsorted" and 1 <= len(e.args) + len(e.keywords) <= 2:
                    c = self.col(recv, env)
                    side = "left"
                    extra = list(e.args[1:]) + [k.value for k in e.keywords if k.arg == "side"]
                    if len(extra) != len(e.args) - 1 + len(e.keywords):
                        raise Untranslatable("searchsorted arguments " + ast.unparse(e))
                    if extra:
                        if not (isinstance(extra[0], ast.Constant) and extra[0].value in ("left", "right")):
                            raise Untranslatable("searchsorted side " + ast.unparse(e))
                        side = extra[0].value
                    if c and c[0] == "col":
                        fn = "ssLeft" if side == "left" else "ssRight"
                        return ("nat", f"({fn} (t.map (·.{c[1]})) {self.as_int(self.expr(e.args[0], env))})")
                if m == "clip" and not e.args and len(e.keywords) == 1 and e.keywords[0].arg in ("lower", "upper"):
                    x = self.expr(recv, env)
                    if x[0] == "int":
                        mm = "max" if e.keywords[0].arg == "lower" else "min"
                        return ("int", f"({mm} {x[1]} {self.as_int(self.expr(e.keywords[0].value, env))})")
                if m == "iloc" or (isinstance(recv, ast.Attribute) and recv.attr == "iloc"):
                    pass
        if isinstance(e, ast.Subscript) and isinstance(e.value, ast.Attribute) and e.value.attr in ("iloc", "loc") \
                and isinstance(e.value.value, ast.Name) and e.value.value.id == self.table:
            return ("rows", "")
        raise Untranslatable("expression " + ast.unparse(e)[:80])

    def cond(self, e, env):
        """a Lean Bool"""
        if isinstance(e, ast.BoolOp):
            op = " && " if isinstance(e.op, ast.And) else " || "
            return "(" + op.join(self.cond(v, env) for v in e.values) + ")"
        if isinstance(e, ast.UnaryOp) and isinstance(e.op, ast.Not):
            return f"(!{self.cond(e.operand, env)})"
        if isinstance(e, ast.Compare) and len(e.ops) == 1:
            op, right = e.ops[0], e.comparators[0]
            if isinstance(op, (ast.Is, ast.IsNot)) and isinstance(right, ast.Constant) and right.value is None:
                k, x = self.expr(e.left, env)
                if k == "opt":
                    return f"{x}.isNone" if isinstance(op, ast.Is) else f"{x}.isSome"
                return "false" if isinstance(op, ast.Is) else "true"
            if isinstance(op, (ast.Eq, ast.NotEq)) and isinstance(e.left, ast.Name) and e.left.id == "mode" \
                    and isinstance(right, ast.Constant) and right.value in ("inner", "outer", "trim"):
                base = {"inner": "inner", "outer": "(!inner)", "trim": "trim"}[right.value]
                return base if isinstance(op, ast.Eq) else f"(!{base})"
            if isinstance(op, (ast.Eq, ast.NotEq)) or type(op) in self.CMP:
                # comparison of two indices / lengths / numbers (`len(table) == 0`, `len(ser) > 1`)
                a, b = self.expr(e.left, env), self.expr(right, env)
                if a[0] in ("nat", "zero", "int") and b[0] in ("nat", "zero", "int") and "nat" in (a[0], b[0]):
                    sym = "==" if isinstance(op, ast.Eq) else "!=" if isinstance(op, ast.NotEq) else None
                    if sym:
                        return f"({a[1]} {sym} {b[1]})"
                    return f"decide ({a[1]} {self.CMP[type(op)]} {b[1]})"
        if isinstance(e, ast.Call) and ast.unparse(e.func) == "len" and len(e.args) == 1:
            if isinstance(e.args[0], ast.Name) and e.args[0].id == self.table:
                return "(t.length != 0)"
            k, x = self.expr(e.args[0], env)
            if k == "opt":
                return f"{x}.isSome"        # a bounds array read for one query: non-empty = this bound is given
            if k == "nat":
                return f"({x} != 0)"
            if k == "zero":
                return "true"               # the zeros / repeat arrays have one entry per query
        k, x = self.expr(e, env)
        if k == "opt":
            return f"({x}.isSome && {x}.getD 0 != 0)"
        if k in ("bool", "mask"):
            return x
        if k == "nat":
            return f"({x} != 0)"
        if k == "zero":
            return "false"
        raise Untranslatable("condition " + ast.unparse(e)[:80])

    # -- statements ------------------------------------------------------------------------------------------
    @staticmethod
    def _zero_mask_slice(t):
        return isinstance(t, ast.Subscript) and isinstance(t.value, ast.Name) and isinstance(t.slice, ast.Slice) \
            and t.slice.step is None and (t.slice.lower is None) != (t.slice.upper is None)

    def merge(self, c, e1, e2):
        out = {}
        for k in e1:
            if k not in e2:
                continue
            if e1[k] == e2[k]:
                out[k] = e1[k]
                continue
            (k1, x1), (k2, x2) = e1[k], e2[k]
            if k1 != k2:
                if {k1, k2} == {"zero", "nat"}:
                    k1 = k2 = "nat"
                elif {k1, k2} == {"zero", "int"}:
                    k1 = k2 = "int"
                elif {k1, k2} == {"zero", "opt"}:
                    x1 = "(some 0)" if k1 == "zero" else x1
                    x2 = "(some 0)" if k2 == "zero" else x2
                    k1 = k2 = "opt"
                else:
                    continue            # differently typed in the two branches: not usable afterwards
            if k1 in ("slice", "rows", "col"):
                continue
            out[k] = (k1, f"(if {c} then {x1} else {x2})")
        return out

    def exec(self, stmts, env):
        for s in stmts:
            if isinstance(s, ast.Expr) and isinstance(s.value, ast.Constant):
                continue
            if isinstance(s, ast.Assert):
                continue
            if isinstance(s, ast.Expr) and isinstance(s.value, ast.Yield):
                v = s.value.value
                elts = v.elts if isinstance(v, ast.Tuple) else [v]
                self.yielded = (elts, dict(env))
                continue
            if isinstance(s, ast.Assign) and len(s.targets) == 1:
                t = s.targets[0]
                env = dict(env)
                if isinstance(t, ast.Name):
                    env[t.id] = self.expr(s.value, env)
                    continue
                if self._zero_mask_slice(t) and isinstance(s.value, ast.Constant) and s.value.value in (0, False) \
                        and env.get(t.value.id, ("", ""))[0] == "mask":
                    m = env[t.value.id][1]
                    if t.slice.lower is None:
                        k = self.as_nat(self.expr(t.slice.upper, env))
                        env[t.value.id] = ("mask", f"({m} && decide ({k} ≤ i))")
                    else:
                        k = self.as_nat(self.expr(t.slice.lower, env))
                        env[t.value.id] = ("mask", f"({m} && decide (i < {k}))")
                    continue
                if isinstance(t, ast.Attribute) and isinstance(t.value, ast.Name) and t.attr in self.COLS \
                        and env.get(t.value.id, ("", ""))[0] == "rows":
                    env["@" + self.COLS[t.attr]] = ("int", self.as_int(self.expr(s.value, env)))
                    continue
                raise Untranslatable("assignment " + ast.unparse(s)[:80])
            if isinstance(s, ast.AugAssign) and isinstance(s.op, ast.BitAnd) and isinstance(s.target, ast.Name):
                env = dict(env)
                a, b = self.expr(s.target, env), self.expr(s.value, env)
                if a[0] == b[0] == "mask":
                    env[s.target.id] = ("mask", f"({a[1]} && {b[1]})")
                    continue
            if isinstance(s, ast.If):
                c = self.cond(s.test, env)
                y0 = self.yielded
                e1 = self.exec(s.body, dict(env))
                e2 = self.exec(s.orelse, dict(env))
                if self.yielded is not y0:
                    raise Untranslatable("yield under a condition")
                env = self.merge(c, e1, e2)
                continue
            raise Untranslatable(type(s).__name__ + ": " + ast.unparse(s)[:80])
        return env

    # -- entry points ----------------------------------------------------------------------------------------
    def _bounds_env(self):
        """the parameters after the table are the bounds arrays (and `mode`)"""
        names = [a.arg for a in self.fn.args.args]
        if len(names) < 3 or names[0] != self.table:
            raise Untranslatable("signature " + ", ".join(names))
        return {names[1]: ("opt", "qs"), names[2]: ("opt", "qe")}

    def _loop(self, stmts, pred):
        for k, s in enumerate(stmts):
            if isinstance(s, ast.For) and pred(s):
                return stmts[:k], s
        raise Untranslatable("no loop over the queries found")

    @staticmethod
    def _is_zip(s):
        return isinstance(s.iter, ast.Call) and ast.unparse(s.iter.func) == "zip" and isinstance(s.target, ast.Tuple)

    def per_query(self, lean_name, comment, what):
        """`what` = mask: the body of `for a, b in zip(starts, ends)` yields a row mask first;
        `what` = slice: statements before `for ... in zip(idxs, starts, idxs, ends)` are executed on the current
        query's bounds, the loop binds its targets to them, the first yielded element is `slice(lo, hi)`"""
        pre, loop = self._loop(list(self.fn.body), self._is_zip)
        env = self._bounds_env()
        if what == "slice":
            env = self.exec(pre, env)
        # (mask reading: the statements before the loop only replace a missing array by `[None] * n`, which is what
        # `none` already says)
        targets = [t.id for t in loop.target.elts]
        args = loop.iter.args
        if len(targets) != len(args):
            raise Untranslatable("zip arity")
        env = dict(env)
        bound = {}
        for nm, a in zip(targets, args):
            bound[nm] = self.expr(a, env)
        env.update(bound)
        self.yielded = None
        self.exec(loop.body, env)
        if not self.yielded:
            raise Untranslatable("the loop yields nothing")
        elts, yenv = self.yielded
        first = self.expr(elts[0], yenv)
        doc = f"/-- {comment} -/\n"
        if what == "mask":
            if first[0] != "mask":
                raise Untranslatable("the first yielded value is not a row mask")
            return doc + (f"def {lean_name} (t : Table) (inner : Bool) (qs qe : Option Int) (i : Nat) (row : Row) : Bool :=\n"
                          f"  {first[1]}")
        if first[0] != "slice":
            raise Untranslatable("the first yielded value is not slice(lo, hi)")
        return doc + (f"def {lean_name} (t : Table) (inner : Bool) (qs qe : Option Int) : Nat × Nat :=\n"
                      f"  ({first[1][0]}, {first[1][1]})")

    def clip(self, lean_name, comment, producer="idx_ranges"):
        """the body of `for idx, start_val, end_val in idx_ranges(...)`: the start / end of one selected row"""
        def pred(s):
            return isinstance(s.iter, ast.Call) and ast.unparse(s.iter.func) == producer and isinstance(s.target, ast.Tuple) \
                and len(s.target.elts) == 3
        _pre, loop = self._loop(list(self.fn.body), pred)
        t = [x.id for x in loop.target.elts]
        env = {t[0]: ("idx", ""), t[1]: ("opt", "qs"), t[2]: ("opt", "qe"),
               "@s": ("int", "row_start"), "@e": ("int", "row_end")}
        self.yielded = None
        # an `if mode == "trim":` around the clipping is part of the reading (parameter `trim`); yields are at loop level
        self.exec(loop.body, env)
        if not self.yielded:
            raise Untranslatable("the loop yields nothing")
        elts, yenv = self.yielded
        if self.expr(elts[0], yenv)[0] != "rows" or "@s" not in yenv or "@e" not in yenv:
            raise Untranslatable("the loop does not yield the selected rows")
        return (f"/-- {comment} -/\ndef {lean_name} (trim : Bool) (qs qe : Option Int) (row_start row_end : Int) : Int × Int :=\n"
                f"  ({yenv['@s'][1]}, {yenv['@e'][1]})")

    def decision(self, lean_name, comment, leaves, params, conds=None):
        """decision tree of an `if / elif / else` cascade; `leaves`: source text of `target = value`, `return value`
        or `yield value` -> code; `conds`: source text of a condition -> Lean Bool (on top of `cond`); the first leaf
        met on a path ends it, a path without leaf has code `leaves[None]`"""
        conds = conds or {}

        def leaf(s):
            if isinstance(s, ast.Assign) and len(s.targets) == 1:
                key = ast.unparse(s.targets[0]) + " = " + ast.unparse(s.value)
            elif isinstance(s, ast.Return) and s.value is not None:
                key = "return " + ast.unparse(s.value)
            elif isinstance(s, ast.Expr) and isinstance(s.value, ast.Yield) and s.value.value is not None:
                key = "yield " + ast.unparse(s.value.value)
            else:
                return None
            return leaves.get(key)

        def cnd(e, env):
            txt = ast.unparse(e)
            if txt in conds:
                return conds[txt]
            if isinstance(e, ast.BoolOp):
                op = " && " if isinstance(e.op, ast.And) else " || "
                return "(" + op.join(cnd(v, env) for v in e.values) + ")"
            if isinstance(e, ast.UnaryOp) and isinstance(e.op, ast.Not):
                return f"(!{cnd(e.operand, env)})"
            return self.cond(e, env)

        def has_leaf(stmts):
            return any(leaf(s) is not None or (isinstance(s, ast.If) and (has_leaf(s.body) or has_leaf(s.orelse)))
                       for s in stmts)

        def walk(stmts, env):
            for k, s in enumerate(stmts):
                code = leaf(s)
                if code is not None:
                    return str(code)
                if isinstance(s, ast.If):
                    if not (has_leaf(s.body) or has_leaf(s.orelse)):
                        continue    # does not choose among the alternatives (an early exit: a precondition here)
                    rest = stmts[k + 1:]
                    c = cnd(s.test, env)
                    return f"(if {c} then {walk(list(s.body) + rest, env)} else {walk(list(s.orelse) + rest, env)})"
            if None in leaves:
                return str(leaves[None])
            raise Untranslatable("a path of the decision ends without a known alternative")

        try:
            env = self._bounds_env()
        except Untranslatable:
            env = {}
        body = walk(list(self.fn.body), env)
        return f"/-- {comment} -/\ndef {lean_name} {params} : Nat :=\n  {body}"


def emit_table(repo, o, specs):
    """specs: (file, function (dotted for a nested one), lean name, method, kwargs, comment)"""
    import os
    from .translate import parse, find_func
    for path, fname, lean, method, kw, comment in specs:
        try:
            tree, _src = parse(os.path.join(repo, path))
            fn = tree
            for part in fname.split("."):
                fn = find_func(fn, part)
            kw = dict(kw)
            tf = TableFn(fn, table=kw.pop("table", "table"))
            text = getattr(tf, method)(lean, comment, **kw)
        except (Untranslatable, KeyError, OSError, SyntaxError) as e:
            o.lines.append(f"-- NOT TRANSLATED: {path}:{fname}: {type(e).__name__}: {str(e)[:200]}".replace("\n", " "))
            o.info[lean] = {"error": str(e)[:200]}
            continue
        o.lines.append(text)
        o.info[lean] = {"method": method}
