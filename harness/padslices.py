"""`np.concatenate((x[a:b:-1], x, x[c:d:-1]))` -> Lean (round 5, C19: smoothing._pad_array).

Reading of the source (trusted): the function must consist of a single `return np.concatenate((P1, .., Pk))`; every part is the
vector parameter itself or a slice `x[start:stop:-1]` of it with the literal step -1, read as `C19Pad.sliceRev start stop x`
(lean/CnvVerif/Model/PadExt5.lean: Python's rule for a negative step -- a negative bound counts from the end, bounds are
clipped to [-1, n-1], an omitted start is n-1, an omitted stop is "before index 0"); the bounds are integer expressions in the
integer parameter (`+`, `-`, unary minus, literals), omitted bounds are `none`.  Anything else is Untranslatable."""
from __future__ import annotations

import ast
import os

from .exprtrans import Untranslatable


def _int(e, ipar):
    if isinstance(e, ast.Constant) and isinstance(e.value, int) and not isinstance(e.value, bool):
        return f"({e.value} : Int)"
    if isinstance(e, ast.Name) and e.id == ipar:
        return ipar
    if isinstance(e, ast.UnaryOp) and isinstance(e.op, ast.USub):
        return f"(-{_int(e.operand, ipar)})"
    if isinstance(e, ast.BinOp) and type(e.op) in (ast.Add, ast.Sub):
        return f"({_int(e.left, ipar)} {'+' if isinstance(e.op, ast.Add) else '-'} {_int(e.right, ipar)})"
    raise Untranslatable("slice bound outside the subset: " + ast.unparse(e))


def translate(fn, lean, comment):
    body = [s for s in fn.body if not (isinstance(s, ast.Expr) and isinstance(s.value, ast.Constant))]
    args = [a.arg for a in fn.args.args]
    if len(args) != 2 or len(body) != 1 or not isinstance(body[0], ast.Return):
        raise Untranslatable("expected `def f(x, wing): return np.concatenate((...))`")
    vec, ipar = args
    c = body[0].value
    if not (isinstance(c, ast.Call) and ast.unparse(c.func) in ("np.concatenate", "numpy.concatenate", "np.hstack") and len(c.args) == 1
            and isinstance(c.args[0], (ast.Tuple, ast.List)) and not c.keywords):
        raise Untranslatable("expected np.concatenate((...))")
    parts = []
    for p in c.args[0].elts:
        if isinstance(p, ast.Name) and p.id == vec:
            parts.append(vec)
        elif isinstance(p, ast.Subscript) and isinstance(p.value, ast.Name) and p.value.id == vec and isinstance(p.slice, ast.Slice):
            sl = p.slice
            if sl.step is None or ast.unparse(sl.step) != "-1":
                raise Untranslatable("slice step is not the literal -1")
            lo = "none" if sl.lower is None else f"(some {_int(sl.lower, ipar)})"
            hi = "none" if sl.upper is None else f"(some {_int(sl.upper, ipar)})"
            parts.append(f"C19Pad.sliceRev {lo} {hi} {vec}")
        else:
            raise Untranslatable("part outside the subset: " + ast.unparse(p))
    return (f"/-- {comment} -/\ndef {lean} {{α}} ({vec} : List α) ({ipar} : Int) : List α :=\n  " + " ++ ".join(parts)), [vec, ipar]


def emit(repo, o, specs):
    from .translate import parse, find_func
    for path, fname, lean, comment in specs:
        try:
            tree, _src = parse(os.path.join(repo, path))
            text, params = translate(find_func(tree, fname), lean, comment)
        except (Untranslatable, KeyError, OSError, SyntaxError) as e:
            o.lines.append(f"-- NOT TRANSLATED: {path}:{fname}: {type(e).__name__}: {str(e)[:200]}".replace("\n", " "))
            o.info[lean] = {"error": str(e)[:200]}
            continue
        o.lines.append(text + "\n")
        o.info[lean] = {"params": params}
